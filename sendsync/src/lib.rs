//! Engine D for C14: compile-time assertion that `scnr::Scanner` is `Send + Sync`.
//! Built twice by bin/check_c14: without the feature (scnr alone must compile, otherwise it is a
//! harness error) and with `--features assert`; only an E0277 in the second step is a violation.

#[cfg(feature = "assert")]
fn assert_send_sync<T: Send + Sync>() {}

#[cfg(feature = "assert")]
pub fn scanner_is_send_and_sync() {
    assert_send_sync::<scnr::Scanner>();
    assert_send_sync::<scnr::ScannerBuilder>();
    assert_send_sync::<scnr::ScannerMode>();
}
