//! Engine B for C14: lock-level schedules of the scanner cache under shuttle.
//!
//!   c14shuttle run --seed N --workloads W --schedules S --out <json> --sched-dir <dir>
//!   c14shuttle replay <replay.json>
//!
//! One *workload* (threads, scripts, configurations, inputs) is a pure function of
//! (VERIF_SEED, workload index); it is drawn BEFORE any thread is spawned. Each workload is then
//! executed under S schedules of shuttle's random scheduler and S of its PCT scheduler (both
//! seeded), plus a short pass under the uncontrolled-nondeterminism checker. The expected result
//! of every call is computed sequentially with uncached builds outside shuttle.

#![allow(dead_code)]
#[path = "../../sim/src/gen.rs"]
mod gen;
#[path = "../../sim/src/rng.rs"]
mod rng;
#[path = "../../sim/src/spec.rs"]
mod spec;

use rng::Rng;
use scnr::{Lookahead, Pattern, Scanner, ScannerBuilder, ScannerMode, ScannerModeSwitcher};
use serde::{Deserialize, Serialize};
use shuttle::scheduler::{PctScheduler, RandomScheduler, UncontrolledNondeterminismCheckScheduler};
use shuttle::{Config as ShuttleConfig, FailurePersistence, MaxSteps, Runner};
use spec::*;
use std::collections::{BTreeMap, BTreeSet};
use std::sync::{Arc, Mutex};

#[derive(Clone, Debug, Serialize, Deserialize, PartialEq, Eq, Hash)]
enum Step {
    /// build() through the cache (hit or miss is the schedule's decision), then scan `input`
    BuildCached { cfg: usize, input: usize },
    /// build() of a configuration that must fail
    BuildFailing { cfg: usize },
    /// full scan on the shared Arc<Scanner>
    ScanShared { input: usize },
    /// find_iter on the shared scanner, k tokens, then drop
    PartialShared { input: usize, k: usize },
    /// build_uncached() + scan (no lock at all)
    ScanPrivate { cfg: usize, input: usize },
    /// scan on the shared scanner starting in another mode
    ScanSharedMode { input: usize, mode: usize },
    /// `add_patterns(..).build()` (the simple builder has its own path into the cache)
    BuildSimple { cfg: usize, input: usize },
    /// peek on the shared scanner, advance to the first peeked match, then scan the rest
    PeekShared { input: usize, n: usize },
    /// build() of a configuration nobody has built before in this execution (a guaranteed miss)
    BuildFresh { id: usize },
}

#[derive(Clone, Debug, Serialize, Deserialize, PartialEq, Eq)]
enum Res {
    Toks(Vec<Tok>),
    Err(String),
}

#[derive(Clone, Debug, Serialize, Deserialize)]
struct Workload {
    configs: Vec<Config>,
    failing: Vec<Config>,
    inputs: Vec<String>,
    shared_cfg: usize,
    threads: Vec<Vec<Step>>,
    /// cache pressure: that many distinct trivial configurations are built through the cache
    /// before the threads start (bounded caches, eviction, rehashing)
    #[serde(default)]
    prefill: usize,
    /// quiescent tail: after all threads have joined, that many further distinct trivial
    /// configurations are built through the cache and every configuration of the workload is built
    /// again, each compared with its uncached twin (damage done by a race that only shows once the
    /// cache evicts, rehashes or recycles: "once the threads are gone, requests are still served")
    #[serde(default)]
    postfill: usize,
}

fn to_modes(cfg: &Config) -> Vec<ScannerMode> {
    cfg.iter()
        .map(|m| {
            ScannerMode::new(
                &m.name,
                m.patterns
                    .iter()
                    .map(|p| {
                        let pat = Pattern::new(p.pattern.clone(), p.token_type);
                        match &p.lookahead {
                            Some(la) => pat.with_lookahead(Lookahead::new(la.is_positive, la.pattern.clone())),
                            None => pat,
                        }
                    })
                    .collect::<Vec<_>>(),
                m.transitions.clone(),
            )
        })
        .collect()
}

fn scan(sc: &Scanner, input: &str, mode: usize, limit: Option<usize>) -> Vec<Tok> {
    let mut f = sc.find_iter(input);
    f.set_mode(mode);
    let mut v = Vec::new();
    for _ in 0..limit.unwrap_or(input.len() + 2) {
        match f.next() {
            Some(m) => v.push((m.token_type(), m.start(), m.end())),
            None => break,
        }
    }
    v
}

fn err_kind(e: &scnr::ScnrError) -> String {
    match &*e.source {
        scnr::ScnrErrorKind::RegexSyntaxError(..) => "RegexSyntaxError".into(),
        scnr::ScnrErrorKind::IoError(_) => "IoError".into(),
        scnr::ScnrErrorKind::UnsupportedFeature(_) => "UnsupportedFeature".into(),
        scnr::ScnrErrorKind::EmptyToken => "EmptyToken".into(),
    }
}

/// Uncached build for workload generation and for the sequential specification. A build that
/// panics (C07's business) makes the configuration unusable here instead of killing the harness.
fn try_uncached(c: &Config) -> Option<std::result::Result<Scanner, scnr::ScnrError>> {
    std::panic::catch_unwind(std::panic::AssertUnwindSafe(|| ScannerBuilder::new().add_scanner_modes(&to_modes(c)).build_uncached())).ok()
}

fn gen_workload(seed: u64, idx: u64) -> Workload {
    let mut rng = Rng::for_run(seed, 0xC14, idx);
    let k = gen::Knobs {
        modes: (1, 2),
        patterns: (1, 3),
        lookahead_pct: *rng.pick(&[0, 0, 30]),
        input_len: (0, 16),
        max_depth: 1,
        ..gen::Knobs::default()
    };
    let al = gen::gen_alphabet(&mut rng, false);
    let n_cfg = rng.range(1, 3);
    let mut configs: Vec<Config> = Vec::new();
    let mut gcs = Vec::new();
    let mut attempts = 0;
    while configs.len() < n_cfg {
        attempts += 1;
        if attempts > 60 {
            // nothing builds (C07/C15's business): fall back to the simplest configuration
            let g = gen::GenConfig {
                config: vec![ModeSpec { name: "INITIAL".into(), patterns: vec![PatternSpec { pattern: "a".into(), token_type: 0, lookahead: None }], transitions: vec![] }],
                rx: vec![vec![gen::Rx::Lit('a')]],
            };
            configs.push(g.config.clone());
            gcs.push(g);
            continue;
        }
        let g = gen::gen_config(&mut rng, &al, &k);
        // only configurations that build (checked sequentially, uncached)
        if matches!(try_uncached(&g.config), Some(Ok(_))) && matches!(try_uncached(&gen::make_simple(&g.config)), Some(_)) {
            configs.push(g.config.clone());
            gcs.push(g);
        }
    }
    // one workload in six contains a BIG configuration: more than 32 patterns (keyword list) and an
    // automaton with more than 64 states (bounded repetition) — size thresholds in caches and
    // scratch structures
    if rng.chance(1, 6) {
        let mut pats: Vec<PatternSpec> = (0..40usize)
            .map(|i| PatternSpec { pattern: format!("k{}{}", (b'a' + (i % 26) as u8) as char, i), token_type: 100 + i, lookahead: None })
            .collect();
        pats.push(PatternSpec { pattern: "a{1,70}b".to_string(), token_type: 99, lookahead: None });
        pats.push(PatternSpec { pattern: "[a-z]".to_string(), token_type: 98, lookahead: None });
        let big = vec![ModeSpec { name: "INITIAL".into(), patterns: pats, transitions: vec![] }];
        if matches!(try_uncached(&big), Some(Ok(_))) {
            configs.push(big);
        }
    }
    // near-variants raise the chance of key confusion under concurrency
    if rng.chance(1, 2) {
        let kind = *rng.pick(gen::VARIANT_KINDS);
        if let Some(v) = gen::near_variant(&mut rng, &configs[0], kind, &al) {
            if matches!(try_uncached(&v), Some(Ok(_))) && matches!(try_uncached(&gen::make_simple(&v)), Some(_)) && !configs.contains(&v) {
                configs.push(v);
            }
        }
    }
    let mut failing = Vec::new();
    for _ in 0..rng.range(1, 2) {
        let kind = *rng.pick(gen::FAIL_KINDS);
        if let Some(f) = gen::failing_variant(&mut rng, rng_pick_cfg(&configs, idx), kind) {
            if matches!(try_uncached(&f), Some(Err(_))) {
                failing.push(f);
            }
        }
    }
    if !failing.iter().any(|f| f.len() >= 2) {
        // a two-mode configuration whose SECOND mode fails to compile
        let mut f = configs[0].clone();
        f.truncate(1);
        f.push(ModeSpec { name: "BAD".into(), patterns: vec![PatternSpec { pattern: "a*?".into(), token_type: 7, lookahead: None }], transitions: vec![] });
        if matches!(try_uncached(&f), Some(Err(_))) {
            failing.push(f);
        }
    }
    let refs: Vec<&gen::GenConfig> = gcs.iter().collect();
    let inputs: Vec<String> = (0..rng.range(1, 3)).map(|_| gen::gen_input(&mut rng, &al, &refs, (0, 16))).collect();
    let mut inputs = inputs;
    if configs.iter().any(|c| c[0].patterns.len() > 32) {
        inputs.push(format!("kb1 {}b kn39 {}b kz25", "a".repeat(40), "a".repeat(69)));
    }
    let mut shared_cfg = rng.below(configs.len());
    // a big configuration, if there is one, is the shared scanner half of the time (concurrent scans
    // of one big compilation)
    if let Some(bi) = configs.iter().position(|c| c[0].patterns.len() > 32) {
        if rng.chance(1, 2) {
            shared_cfg = bi;
        }
    }
    // workload flavours: ordinary / failing storm (many concurrent failing builds of multi-mode
    // configurations) / miss storm under cache pressure
    let flavour = rng.weighted(&[6, 1, 1]);
    let n_threads = if flavour == 0 { rng.range(2, 4) } else { rng.range(3, 4) };
    let mut fresh_id = 1000usize;
    let mut threads = Vec::new();
    for _ in 0..n_threads {
        let n_steps = rng.range(2, 5);
        let mut script = Vec::new();
        for _ in 0..n_steps {
            let input = rng.below(inputs.len());
            let cfg = rng.below(configs.len());
            let weights: [usize; 9] = match flavour {
                1 => [10, if failing.is_empty() { 0 } else { 70 }, 5, 0, 0, 0, 5, 0, 10],
                2 => [25, if failing.is_empty() { 0 } else { 5 }, 5, 0, 0, 0, 5, 0, 60],
                _ => [35, if failing.is_empty() { 0 } else { 12 }, 20, 10, 8, 8, 8, 6, 3],
            };
            script.push(match rng.weighted(&weights) {
                0 => Step::BuildCached { cfg, input },
                1 => Step::BuildFailing { cfg: rng.below(failing.len()) },
                2 => Step::ScanShared { input },
                3 => Step::PartialShared { input, k: rng.range(0, 3) },
                4 => Step::ScanPrivate { cfg, input },
                5 => Step::ScanSharedMode { input, mode: rng.below(configs[shared_cfg].len()) },
                6 => Step::BuildSimple { cfg, input },
                7 => Step::PeekShared { input, n: rng.range(1, 3) },
                _ => {
                    fresh_id += 1;
                    Step::BuildFresh { id: fresh_id }
                }
            });
        }
        threads.push(script);
    }
    let prefill = if flavour == 2 || rng.chance(1, 10) { *rng.pick(&[7usize, 31, 127, 129, 255]) } else { 0 };
    let postfill = if flavour == 2 || rng.chance(1, 8) { *rng.pick(&[9usize, 40, 70, 130, 270]) } else { 0 };
    Workload { configs, failing, inputs, shared_cfg, threads, prefill, postfill }
}

fn trivial_config(i: usize) -> Config {
    vec![ModeSpec { name: "INITIAL".into(), patterns: vec![PatternSpec { pattern: format!("a{{{}}}", 1 + i % 5), token_type: i, lookahead: None }], transitions: vec![] }]
}

fn rng_pick_cfg(configs: &[Config], idx: u64) -> &Config {
    &configs[(idx as usize) % configs.len()]
}

/// The sequential specification: every call made alone, with uncached builds.
fn expected(w: &Workload) -> Vec<Vec<Res>> {
    let unc = |c: &Config| ScannerBuilder::new().add_scanner_modes(&to_modes(c)).build_uncached();
    w.threads
        .iter()
        .map(|script| {
            script
                .iter()
                .map(|s| match s {
                    Step::BuildCached { cfg, input } | Step::ScanPrivate { cfg, input } => Res::Toks(scan(&unc(&w.configs[*cfg]).unwrap(), &w.inputs[*input], 0, None)),
                    Step::BuildFailing { cfg } => Res::Err(err_kind(&unc(&w.failing[*cfg]).err().unwrap())),
                    Step::ScanShared { input } => Res::Toks(scan(&unc(&w.configs[w.shared_cfg]).unwrap(), &w.inputs[*input], 0, None)),
                    Step::PartialShared { input, k } => Res::Toks(scan(&unc(&w.configs[w.shared_cfg]).unwrap(), &w.inputs[*input], 0, Some(*k))),
                    Step::ScanSharedMode { input, mode } => Res::Toks(scan(&unc(&w.configs[w.shared_cfg]).unwrap(), &w.inputs[*input], *mode, None)),
                    Step::BuildSimple { cfg, input } => match unc(&gen::make_simple(&w.configs[*cfg])) {
                        Ok(sc) => Res::Toks(scan(&sc, &w.inputs[*input], 0, None)),
                        Err(e) => Res::Err(err_kind(&e)),
                    },
                    Step::PeekShared { input, n } => Res::Toks(peek_then_scan(&unc(&w.configs[w.shared_cfg]).unwrap(), &w.inputs[*input], *n)),
                    Step::BuildFresh { id } => Res::Toks(scan(&unc(&trivial_config(*id)).unwrap(), "aaaaa aa", 0, None)),
                })
                .collect()
        })
        .collect()
}

fn exec_step(w: &Workload, shared: &Scanner, s: &Step) -> Res {
    match s {
        Step::BuildCached { cfg, input } => match ScannerBuilder::new().add_scanner_modes(&to_modes(&w.configs[*cfg])).build() {
            Ok(sc) => Res::Toks(scan(&sc, &w.inputs[*input], 0, None)),
            Err(e) => Res::Err(err_kind(&e)),
        },
        Step::BuildFailing { cfg } => match ScannerBuilder::new().add_scanner_modes(&to_modes(&w.failing[*cfg])).build() {
            Ok(sc) => Res::Toks(scan(&sc, "", 0, None)),
            Err(e) => Res::Err(err_kind(&e)),
        },
        Step::ScanShared { input } => Res::Toks(scan(shared, &w.inputs[*input], 0, None)),
        Step::PartialShared { input, k } => Res::Toks(scan(shared, &w.inputs[*input], 0, Some(*k))),
        Step::ScanPrivate { cfg, input } => {
            let sc = ScannerBuilder::new().add_scanner_modes(&to_modes(&w.configs[*cfg])).build_uncached().unwrap();
            Res::Toks(scan(&sc, &w.inputs[*input], 0, None))
        }
        Step::ScanSharedMode { input, mode } => Res::Toks(scan(shared, &w.inputs[*input], *mode, None)),
        Step::BuildSimple { cfg, input } => {
            let pats: Vec<String> = w.configs[*cfg][0].patterns.iter().map(|p| p.pattern.clone()).collect();
            match ScannerBuilder::new().add_patterns(pats).build() {
                Ok(sc) => Res::Toks(scan(&sc, &w.inputs[*input], 0, None)),
                Err(e) => Res::Err(err_kind(&e)),
            }
        }
        Step::PeekShared { input, n } => Res::Toks(peek_then_scan(shared, &w.inputs[*input], *n)),
        Step::BuildFresh { id } => match ScannerBuilder::new().add_scanner_modes(&to_modes(&trivial_config(*id))).build() {
            Ok(sc) => Res::Toks(scan(&sc, "aaaaa aa", 0, None)),
            Err(e) => Res::Err(err_kind(&e)),
        },
    }
}

/// peek n, advance to the end of the first peeked match, then scan the rest; the peeked matches
/// are part of the result
fn peek_then_scan(sc: &Scanner, input: &str, n: usize) -> Vec<Tok> {
    let mut f = sc.find_iter(input);
    let mut out: Vec<Tok> = Vec::new();
    let peeked = match f.peek_n(n) {
        scnr::PeekResult::Matches(v) | scnr::PeekResult::MatchesReachedEnd(v) => v,
        scnr::PeekResult::MatchesReachedModeSwitch((v, _)) => v,
        scnr::PeekResult::NotFound => vec![],
    };
    for m in &peeked {
        out.push((m.token_type(), m.start(), m.end()));
    }
    if let Some(m) = peeked.first() {
        f.advance_to(m.end());
    }
    for _ in 0..input.len() + 2 {
        match f.next() {
            Some(m) => out.push((m.token_type(), m.start(), m.end())),
            None => break,
        }
    }
    out
}

static INTERLEAVINGS: Mutex<BTreeSet<u64>> = Mutex::new(BTreeSet::new());
static EXECUTIONS: std::sync::atomic::AtomicU64 = std::sync::atomic::AtomicU64::new(0);
static HITS_MISSES: Mutex<(u64, u64, u64)> = Mutex::new((0, 0, 0));
static POSTFILL_RUNS: std::sync::atomic::AtomicU64 = std::sync::atomic::AtomicU64::new(0);

fn fnv(h: &mut u64, x: u64) {
    for b in x.to_le_bytes() {
        *h ^= b as u64;
        *h = h.wrapping_mul(0x100000001b3);
    }
}

/// One execution under shuttle. Panics (assertion) on any disagreement with the sequential result.
fn scenario(w: Arc<Workload>, exp: Arc<Vec<Vec<Res>>>, widx: u64) {
    EXECUTIONS.fetch_add(1, std::sync::atomic::Ordering::Relaxed);
    let order: Arc<Mutex<Vec<(usize, usize)>>> = Arc::new(Mutex::new(Vec::new()));
    for i in 0..w.prefill {
        let sc = ScannerBuilder::new().add_scanner_modes(&to_modes(&trivial_config(i))).build().expect("trivial configuration builds");
        assert_eq!(sc.mode_name(0), Some("INITIAL"));
    }
    // the shared scanner comes out of the cache too
    let shared = Arc::new(
        ScannerBuilder::new()
            .add_scanner_modes(&to_modes(&w.configs[w.shared_cfg]))
            .build()
            .expect("shared scanner builds"),
    );
    let mut handles = Vec::new();
    for (ti, script) in w.threads.iter().enumerate() {
        let (w2, shared2, order2, script2) = (w.clone(), shared.clone(), order.clone(), script.clone());
        handles.push(shuttle::thread::spawn(move || {
            let mut out = Vec::new();
            for (si, s) in script2.iter().enumerate() {
                // a scheduling point between steps: scans contain no synchronisation
                shuttle::thread::sleep(std::time::Duration::from_millis(0));
                order2.lock().unwrap().push((ti, si));
                let before = scnr::verif::scanner_cache_len();
                let r = exec_step(&w2, &shared2, s);
                if matches!(s, Step::BuildCached { .. } | Step::BuildSimple { .. } | Step::BuildFresh { .. }) {
                    let after = scnr::verif::scanner_cache_len();
                    let mut hm = HITS_MISSES.lock().unwrap();
                    if after > before {
                        hm.1 += 1
                    } else {
                        hm.0 += 1
                    }
                }
                if matches!(s, Step::BuildFailing { .. }) {
                    HITS_MISSES.lock().unwrap().2 += 1;
                }
                out.push(r);
            }
            out
        }));
    }
    for (ti, h) in handles.into_iter().enumerate() {
        let got = h.join().expect("thread panicked");
        assert_eq!(got, exp[ti], "C14 result mismatch: workload {} thread {}: concurrent results differ from the sequential ones", widx, ti);
    }
    // quiescent tail (no concurrency any more): the cache must still serve every request correctly
    if w.postfill > 0 {
        for i in 0..w.postfill {
            let id = 5000 + i;
            let sc = ScannerBuilder::new().add_scanner_modes(&to_modes(&trivial_config(id))).build().expect("C14 quiescent tail: trivial configuration builds through the cache");
            let un = ScannerBuilder::new().add_scanner_modes(&to_modes(&trivial_config(id))).build_uncached().expect("trivial configuration builds");
            assert_eq!(scan(&sc, "aaaaa aa", 0, None), scan(&un, "aaaaa aa", 0, None), "C14 result mismatch: workload {} quiescent tail, fresh configuration {}", widx, id);
        }
        for (ci, c) in w.configs.iter().enumerate() {
            let sc = ScannerBuilder::new().add_scanner_modes(&to_modes(c)).build().expect("C14 quiescent tail: workload configuration builds through the cache");
            let un = ScannerBuilder::new().add_scanner_modes(&to_modes(c)).build_uncached().expect("workload configuration builds");
            for input in w.inputs.iter() {
                assert_eq!(scan(&sc, input, 0, None), scan(&un, input, 0, None), "C14 result mismatch: workload {} quiescent tail, configuration {}", widx, ci);
            }
        }
        POSTFILL_RUNS.fetch_add(1, std::sync::atomic::Ordering::Relaxed);
    }
    let mut h = 0xcbf29ce484222325u64;
    fnv(&mut h, widx);
    for (t, s) in order.lock().unwrap().iter() {
        fnv(&mut h, *t as u64);
        fnv(&mut h, *s as u64);
    }
    INTERLEAVINGS.lock().unwrap().insert(h);
}

#[derive(Serialize, Deserialize, Debug, Clone)]
struct ReplayFile {
    property: String,
    engine: String,
    seed: u64,
    workload_index: u64,
    scheduler: String,
    workload: Workload,
    schedule_file: String,
    schedule: String,
    failure: String,
}

/// Draw the workload and compute the sequential specification inside a (single-threaded,
/// one-iteration) shuttle execution: a change that puts shuttle-instrumented state into the
/// compiled scanner must not make the harness itself panic for running outside an execution.
fn prepare(seed: u64, widx: u64) -> (Arc<Workload>, Arc<Vec<Vec<Res>>>) {
    let slot: Arc<Mutex<Option<(Workload, Vec<Vec<Res>>)>>> = Arc::new(Mutex::new(None));
    let s2 = slot.clone();
    let mut cfg = ShuttleConfig::new();
    cfg.failure_persistence = FailurePersistence::None;
    cfg.silence_warnings = true;
    // sequential preparation: no bound on steps (a change may put instrumented atomics into scans)
    cfg.max_steps = MaxSteps::None;
    Runner::new(RandomScheduler::new_from_seed(0, 1), cfg).run(move || {
        let w = gen_workload(seed, widx);
        let e = expected(&w);
        *s2.lock().unwrap() = Some((w, e));
    });
    let (w, e) = slot.lock().unwrap().take().expect("workload prepared");
    (Arc::new(w), Arc::new(e))
}

fn run_one_scheduler(kind: &str, seed: u64, widx: u64, schedules: usize, w: &Arc<Workload>, exp: &Arc<Vec<Vec<Res>>>, dir: &std::path::Path) -> Result<(), String> {
    let _ = std::fs::remove_dir_all(dir);
    std::fs::create_dir_all(dir).map_err(|e| e.to_string())?;
    let mut cfg = ShuttleConfig::new();
    cfg.failure_persistence = FailurePersistence::File(Some(dir.to_path_buf()));
    cfg.max_steps = MaxSteps::FailAfter(5_000_000);
    cfg.silence_warnings = true;
    let (w2, e2) = (w.clone(), exp.clone());
    let f = move || scenario(w2.clone(), e2.clone(), widx);
    let s = seed ^ widx.wrapping_mul(0x9E3779B97F4A7C15);
    let r = std::panic::catch_unwind(std::panic::AssertUnwindSafe(|| match kind {
        "random" => {
            Runner::new(RandomScheduler::new_from_seed(s, schedules), cfg).run(f);
        }
        "pct" => {
            let depth = 1 + (widx as usize % 4);
            Runner::new(PctScheduler::new_from_seed(s, depth, schedules), cfg).run(f);
        }
        _ => {
            Runner::new(UncontrolledNondeterminismCheckScheduler::new(RandomScheduler::new_from_seed(s, schedules)), cfg).run(f);
        }
    }));
    match r {
        Ok(()) => {
            let _ = std::fs::remove_dir_all(dir);
            Ok(())
        }
        Err(e) => {
            let msg = if let Some(s) = e.downcast_ref::<&str>() {
                s.to_string()
            } else if let Some(s) = e.downcast_ref::<String>() {
                s.clone()
            } else {
                "panic".to_string()
            };
            Err(msg)
        }
    }
}

fn args() -> (Vec<String>, BTreeMap<String, String>) {
    let mut pos = Vec::new();
    let mut kv = BTreeMap::new();
    let mut it = std::env::args().skip(1);
    while let Some(a) = it.next() {
        if let Some(k) = a.strip_prefix("--") {
            kv.insert(k.to_string(), it.next().unwrap_or_default());
        } else {
            pos.push(a);
        }
    }
    (pos, kv)
}

fn main() {
    let (pos, kv) = args();
    let num = |k: &str, d: u64| kv.get(k).and_then(|s| s.parse().ok()).unwrap_or(d);
    match pos.first().map(|s| s.as_str()) {
        Some("run") => {
            let seed = num("seed", 20261004);
            let from = num("from", 0);
            let to = num("to", 40);
            let schedules = num("schedules", 100) as usize;
            let out = kv.get("out").cloned().unwrap_or_else(|| "/dev/stdout".into());
            let sched_dir = std::path::PathBuf::from(kv.get("sched-dir").cloned().unwrap_or_else(|| "/verif/.work/c14-sched".into()));
            let replay_dir = kv.get("replay-dir").cloned().unwrap_or_else(|| "/verif/replays".into());
            let start = std::time::Instant::now();
            let mut violation: Option<String> = None;
            let mut samples = Vec::new();
            let mut step_kinds: BTreeMap<String, u64> = BTreeMap::new();
            let mut workloads = 0u64;
            let mut pressure = 0u64;
            let stride = num("stride", 1).max(1);
            for widx in (from..to).step_by(stride as usize) {
                let (w, exp) = prepare(seed, widx);
                workloads += 1;
                if w.prefill > 0 {
                    pressure += 1;
                }
                for t in &w.threads {
                    for s in t {
                        let k = format!("{:?}", s);
                        let k = k.split_whitespace().next().unwrap_or("").to_string();
                        *step_kinds.entry(k).or_insert(0) += 1;
                    }
                }
                if samples.len() < 2 {
                    samples.push(serde_json::json!({"workload_index": widx, "workload": &*w}));
                }
                for kind in ["random", "pct", "nondeterminism-check"] {
                    let n = if kind == "nondeterminism-check" { (schedules / 10).max(4) } else { schedules };
                    // heavy workloads (big configurations, a pre-filled cache) cost tens of
                    // milliseconds per execution: a quarter of the schedules
                    let heavy = w.prefill >= 127 || w.configs.iter().any(|c| c[0].patterns.len() > 32);
                    let n = if heavy { (n / 4).max(4) } else { n };
                    let dir = sched_dir.join(format!("w{}-{}", widx, kind));
                    if let Err(msg) = run_one_scheduler(kind, seed, widx, n, &w, &exp, &dir) {
                        let sf = dir.join("schedule000.txt");
                        let schedule = std::fs::read_to_string(&sf).unwrap_or_default();
                        let rf = ReplayFile {
                            property: "C14".into(),
                            engine: "shuttle".into(),
                            seed,
                            workload_index: widx,
                            scheduler: kind.into(),
                            workload: (*w).clone(),
                            schedule_file: sf.display().to_string(),
                            schedule,
                            failure: msg.clone(),
                        };
                        let p = format!("{}/C14-shuttle-{}-{}-{}.json", replay_dir, seed, widx, kind);
                        std::fs::write(&p, serde_json::to_string_pretty(&rf).unwrap()).expect("write replay");
                        violation = Some(p);
                        break;
                    }
                }
                if violation.is_some() {
                    break;
                }
            }
            let hm = *HITS_MISSES.lock().unwrap();
            let rep = serde_json::json!({
                "workloads": workloads,
                "cache_pressure_workloads": pressure,
                "quiescent_tail_executions": POSTFILL_RUNS.load(std::sync::atomic::Ordering::Relaxed),
                "executions": EXECUTIONS.load(std::sync::atomic::Ordering::Relaxed),
                "distinct_interleavings": INTERLEAVINGS.lock().unwrap().len(),
                "cache_hits": hm.0, "cache_misses": hm.1, "failing_builds": hm.2,
                "step_kinds": step_kinds,
                "samples": samples,
                "violation_replay": violation,
                "wall_s": start.elapsed().as_secs_f64(),
            });
            std::fs::write(&out, serde_json::to_string(&rep).unwrap()).expect("write report");
            std::process::exit(if rep["violation_replay"].is_null() { 0 } else { 1 });
        }
        Some("replay") => {
            let p = pos.get(1).expect("replay file");
            let rf: ReplayFile = serde_json::from_str(&std::fs::read_to_string(p).expect("read replay")).expect("parse replay");
            let wl = rf.workload.clone();
            let slot: Arc<Mutex<Option<Vec<Vec<Res>>>>> = Arc::new(Mutex::new(None));
            let s2 = slot.clone();
            let wl2 = wl.clone();
            let mut c0 = ShuttleConfig::new();
            c0.failure_persistence = FailurePersistence::None;
            c0.silence_warnings = true;
            c0.max_steps = MaxSteps::None;
            Runner::new(RandomScheduler::new_from_seed(0, 1), c0).run(move || {
                *s2.lock().unwrap() = Some(expected(&wl2));
            });
            let w = Arc::new(wl);
            let exp = Arc::new(slot.lock().unwrap().take().expect("expected results"));
            let widx = rf.workload_index;
            let schedule = rf.schedule.clone();
            let r = std::panic::catch_unwind(std::panic::AssertUnwindSafe(|| {
                shuttle::replay(move || scenario(w.clone(), exp.clone(), widx), &schedule);
            }));
            match r {
                Ok(()) => {
                    println!("replay: no violation on this tree");
                    std::process::exit(0)
                }
                Err(_) => {
                    println!("VIOLATION property=C14 replay={}", p);
                    println!("  reproduced under the recorded shuttle schedule: {}", rf.failure.lines().next().unwrap_or(""));
                    std::process::exit(1)
                }
            }
        }
        _ => {
            eprintln!("usage: c14shuttle run|replay ...");
            std::process::exit(2)
        }
    }
}
