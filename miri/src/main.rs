//! Engine C for C14: std threads, the real `std::sync::RwLock`/`LazyLock` of the scanner cache,
//! the real `unsafe` deref in `ScannerCache::get` and `get_unchecked` in the class matcher, run
//! under Miri with seeded preemption (`-Zmiri-many-seeds`), whose data-race detector and borrow
//! model are the oracle. Also runs natively as a smoke test.
//!
//!   c14miri <scenario 0..3> <workload seed>
//!
//! Every thread compares what it observes with the result of the same call made sequentially
//! (uncached build) before the threads were started, and panics on a difference.

use scnr::{Lookahead, MatchExtIterator, Pattern, PeekResult, Scanner, ScannerBuilder, ScannerMode, ScannerModeSwitcher};
use std::sync::Arc;

type Tok = (usize, usize, usize);

fn splitmix(x: &mut u64) -> u64 {
    *x = x.wrapping_add(0x9E37_79B9_7F4A_7C15);
    let mut z = *x;
    z = (z ^ (z >> 30)).wrapping_mul(0xBF58_476D_1CE4_E5B9);
    z = (z ^ (z >> 27)).wrapping_mul(0x94D0_49BB_1331_11EB);
    z ^ (z >> 31)
}

fn modes(variant: u64) -> Vec<ScannerMode> {
    // a small family of configurations; variants differ in a token type / lookahead polarity
    let la = Lookahead::new(variant % 2 == 0, "b".to_string());
    vec![
        ScannerMode::new(
            "INITIAL",
            vec![
                Pattern::new("a+".to_string(), 1 + (variant % 2) as usize).with_lookahead(la),
                Pattern::new("[a-c]".to_string(), 5),
                Pattern::new("\"".to_string(), 8),
                Pattern::new("\\pL".to_string(), 9),
            ],
            vec![(8, 1)],
        ),
        ScannerMode::new("STR", vec![Pattern::new("[^\"]+".to_string(), 7), Pattern::new("\"".to_string(), 8)], vec![(8, 0)]),
    ]
}

fn failing_modes(variant: u64) -> Vec<ScannerMode> {
    let bad = ["a*?", "\\p{Foo}"][(variant % 2) as usize];
    vec![ScannerMode::new("INITIAL", vec![Pattern::new("a".to_string(), 0), Pattern::new(bad.to_string(), 1)], vec![])]
}

fn scan(sc: &Scanner, input: &str, mode: usize, limit: usize) -> Vec<Tok> {
    let mut f = sc.find_iter(input);
    f.set_mode(mode);
    let mut v = Vec::new();
    for _ in 0..limit {
        match f.next() {
            Some(m) => v.push((m.token_type(), m.start(), m.end())),
            None => break,
        }
    }
    v
}

/// The richer iterator API on one scanner: positions, peek, advance_to, set_offset.
fn exercise(sc: &Scanner, input: &str) -> Vec<(usize, usize, usize, usize, usize)> {
    let mut out = Vec::new();
    for m in sc.find_iter(input).with_positions() {
        out.push((m.token_type(), m.start(), m.end(), m.start_position().line, m.start_position().column));
    }
    let mut f = sc.find_iter(input);
    let peeked = match f.peek_n(2) {
        PeekResult::Matches(v) | PeekResult::MatchesReachedEnd(v) => v,
        PeekResult::MatchesReachedModeSwitch((v, _)) => v,
        PeekResult::NotFound => vec![],
    };
    for m in &peeked {
        out.push((m.token_type(), m.start(), m.end(), 0, 0));
    }
    if let Some(m) = peeked.first() {
        f.advance_to(m.end());
    }
    if let Some(m) = f.next() {
        out.push((m.token_type(), m.start(), m.end(), 1, 1));
    }
    // reset to the second character (offsets must be on character boundaries)
    f.set_offset(input.char_indices().nth(1).map(|x| x.0).unwrap_or(input.len()));
    if let Some(m) = f.next() {
        out.push((m.token_type(), m.start(), m.end(), 2, 2));
    }
    out
}

const HAMMER: &str = "\u{e9}\u{20ac}\u{e4}\u{2192}a\u{df}\u{20ac}\u{e9}\u{2192}\u{fc}\u{20ac}b\u{e9}\u{2192}\u{e4}\u{20ac}\u{e9}c\u{2192}\u{df}";

const INPUTS: &[&str] = &["aab\"x y\"c\u{e9}", "ab a\"", "\u{e9}aa", ""];

fn main() {
    let args: Vec<String> = std::env::args().collect();
    let scenario: u64 = args.get(1).and_then(|s| s.parse().ok()).unwrap_or(0);
    let seed: u64 = args.get(2).and_then(|s| s.parse().ok()).unwrap_or(1);
    let mut x = seed ^ scenario.wrapping_mul(0x1234_5678_9abc_def1);
    let n_threads = 3;
    // expected results, sequentially, uncached: one build per variant (Miri is slow)
    const NV: u64 = 2;
    let variants: Vec<u64> = (0..n_threads).map(|_| splitmix(&mut x) % NV).collect();
    let shared_variant = splitmix(&mut x) % NV;
    // build only the references the scenario needs (every build costs seconds under Miri)
    let needs_private = matches!(scenario, 0 | 1 | 3);
    let needs_fail = matches!(scenario, 1 | 3);
    let reference: Vec<Option<Scanner>> = (0..NV)
        .map(|v| {
            if v == shared_variant || (needs_private && variants.contains(&v)) {
                Some(ScannerBuilder::new().add_scanner_modes(&modes(v)).build_uncached().unwrap())
            } else {
                None
            }
        })
        .collect();
    let fail_ref: Vec<bool> = (0..NV)
        .map(|v| !needs_fail || ScannerBuilder::new().add_scanner_modes(&failing_modes(v)).build_uncached().is_err())
        .collect();
    let shared = Arc::new(ScannerBuilder::new().add_scanner_modes(&modes(shared_variant)).build().expect("shared builds"));
    let mut handles = Vec::new();
    for t in 0..n_threads {
        let v = variants[t as usize];
        let input = INPUTS[(splitmix(&mut x) % INPUTS.len() as u64) as usize];
        let k = (splitmix(&mut x) % 3) as usize;
        let exp_private = reference[v as usize].as_ref().map(|r| scan(r, input, 0, 64)).unwrap_or_default();
        let shared_ref = reference[shared_variant as usize].as_ref().unwrap();
        let exp_shared = scan(shared_ref, input, 0, 64);
        let exp_shared_m1 = scan(shared_ref, input, 1, 64);
        let exp_fail = fail_ref[v as usize];
        let exp_exercise = exercise(shared_ref, input);
        let exp_hammer = scan(shared_ref, HAMMER, 0, 64);
        let shared = shared.clone();
        handles.push(std::thread::spawn(move || {
            match scenario {
                // builds through the cache (hits and misses race) + scan
                0 => {
                    for _ in 0..2 {
                        let sc = ScannerBuilder::new().add_scanner_modes(&modes(v)).build().expect("builds");
                        assert_eq!(scan(&sc, input, 0, 64), exp_private, "cached build differs");
                    }
                }
                // failing builds between good ones
                1 => {
                    let r = ScannerBuilder::new().add_scanner_modes(&failing_modes(v)).build();
                    assert_eq!(r.is_err(), exp_fail, "failing build outcome differs");
                    let sc = ScannerBuilder::new().add_scanner_modes(&modes(v)).build().expect("builds");
                    assert_eq!(scan(&sc, input, 0, 64), exp_private, "build after failure differs");
                }
                // one shared Scanner, iterators created and scanned concurrently, partial scans
                2 => {
                    let _ = scan(&shared, input, 0, k);
                    assert_eq!(scan(&shared, input, 0, 64), exp_shared, "shared scan differs");
                    assert_eq!(scan(&shared, input, 1, 64), exp_shared_m1, "shared scan (mode 1) differs");
                }
                // the richer iterator API (positions, peek, advance_to, set_offset) on the shared scanner
                4 => {
                    assert_eq!(exercise(&shared, input), exp_exercise, "shared iterator API differs");
                    let sc = ScannerBuilder::new().add_scanner_modes(&modes(shared_variant)).build().expect("builds");
                    assert_eq!(exercise(&sc, input), exp_exercise, "cached iterator API differs");
                }
                // many class questions about non-ASCII characters on one shared compiled scanner:
                // anything memoised inside the shared matcher is hammered from three threads
                5 => {
                    for _ in 0..4 {
                        assert_eq!(scan(&shared, HAMMER, 0, 64), exp_hammer, "shared scan of non-ASCII text differs");
                    }
                }
                // mix
                _ => {
                    let sc = ScannerBuilder::new().add_scanner_modes(&modes(v)).build().expect("builds");
                    assert_eq!(scan(&shared, input, 0, 64), exp_shared, "shared scan differs");
                    assert_eq!(scan(&sc, input, 0, 64), exp_private, "cached build differs");
                    let r = ScannerBuilder::new().add_scanner_modes(&failing_modes(v)).build();
                    assert_eq!(r.is_err(), exp_fail, "failing build outcome differs");
                }
            }
        }));
    }
    for h in handles {
        h.join().expect("thread panicked");
    }
    println!("c14miri scenario {} workload {} ok", scenario, seed);
}
