#!/usr/bin/env bash
# tools/regress.sh : every seeded property-breaking change against the check of the property it
# was written for (quick tier); prints one line per change. Benign changes: all sim checks.
ROOT="$(cd "$(dirname "${BASH_SOURCE[0]}")/.." && pwd)"
for d in "$ROOT"/seeded/*/; do
  n=$(basename "$d")
  case "$n" in
    benign-*|legal-*) "$ROOT/tools/try_mutant.sh" "$n" "$d/patch.diff" C06 C07 C09 C10 C11 C12 C13 C18 ;;
    hand-hang) "$ROOT/tools/try_mutant.sh" "$n" "$d/patch.diff" C07 ;;
    hand-static) "$ROOT/tools/try_mutant.sh" "$n" "$d/patch.diff" C06 ;;
    *) t=$(echo "$n" | sed 's/^\(C[0-9][0-9]\).*/\1/'); "$ROOT/tools/try_mutant.sh" "$n" "$d/patch.diff" "$t" ;;
  esac
done
