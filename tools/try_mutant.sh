#!/usr/bin/env bash
# tools/try_mutant.sh <name> <patch.diff> [checks...]
# Applies a seeded change to /repo, runs the repository's own tests and the quick checks,
# records which checks raise an alarm, and ALWAYS restores /repo afterwards.
set -u
NAME="$1"; PATCH="$2"; shift 2
CHECKS=("$@"); [ ${#CHECKS[@]} -gt 0 ] || CHECKS=(C06 C07 C09 C10 C11 C12 C13 C18 C14)
ROOT="$(cd "$(dirname "${BASH_SOURCE[0]}")/.." && pwd)"
OUT="$ROOT/.work/mutants/$NAME"; mkdir -p "$OUT"
if [ -n "$(git -C /repo status --porcelain)" ]; then echo "try_mutant: /repo is not clean" >&2; exit 2; fi
restore() { git -C /repo checkout -q -- . ; git -C /repo clean -fdq -- scnr/src scnr/tests >/dev/null 2>&1; }
trap restore EXIT
git -C /repo apply "$PATCH" || { echo "try_mutant: patch does not apply" >&2; exit 2; }
( cd /repo && cargo test --workspace --no-fail-fast --offline >"$OUT/baseline.log" 2>&1 ); BASE=$?
echo "{\"name\": \"$NAME\", \"baseline_tests_exit\": $BASE, \"checks\": {" > "$OUT/result.json"
first=1
for c in "${CHECKS[@]}"; do
  # each check writes its evidence file; keep the real one aside
  cp "$ROOT/evidence/$c.json" "$OUT/evidence-$c.keep" 2>/dev/null
  "$ROOT/bin/check" "$c" --tier quick >"$OUT/$c.log" 2>&1; rc=$?
  cp "$OUT/evidence-$c.keep" "$ROOT/evidence/$c.json" 2>/dev/null; rm -f "$OUT/evidence-$c.keep"
  v=$(grep -m1 '^VIOLATION' "$OUT/$c.log" | sed 's/"/\\"/g')
  s=$(grep -m1 'signature=' "$OUT/$c.log" | sed 's/^ *//; s/\\/\\\\/g; s/"/\\"/g')
  [ $first = 1 ] || echo "," >> "$OUT/result.json"; first=0
  echo "  \"$c\": {\"exit\": $rc, \"violation\": \"$v\", \"detail\": \"$s\"}" >> "$OUT/result.json"
  for r in $(grep -o 'replay=[^ ]*' "$OUT/$c.log" | cut -d= -f2); do cp "$r" "$OUT/" 2>/dev/null; done
done
echo "}}" >> "$OUT/result.json"
restore; trap - EXIT
python3 - "$OUT/result.json" <<'PY'
import json,sys
r=json.load(open(sys.argv[1]))
print(r['name'], 'baseline_exit=%d'%r['baseline_tests_exit'], ' '.join('%s=%d'%(k,v['exit']) for k,v in r['checks'].items()))
PY
