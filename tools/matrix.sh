#!/usr/bin/env bash
# full sensitivity/specificity matrix: every seeded change x every quick check
ROOT="$(cd "$(dirname "${BASH_SOURCE[0]}")/.." && pwd)"
for d in "$ROOT"/seeded/*/; do
  n=$(basename "$d")
  "$ROOT/tools/try_mutant.sh" "$n" "$d/patch.diff" C06 C07 C09 C10 C11 C12 C13 C18 C14
done
