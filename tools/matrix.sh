#!/usr/bin/env bash
# full sensitivity/specificity matrix: every seeded change x every quick check
# usage: tools/matrix.sh [name ...]   (default: all of seeded/)
ROOT="$(cd "$(dirname "${BASH_SOURCE[0]}")/.." && pwd)"
if [ $# -gt 0 ]; then names=("$@"); else names=(); for d in "$ROOT"/seeded/*/; do names+=("$(basename "$d")"); done; fi
for n in "${names[@]}"; do
  "$ROOT/tools/try_mutant.sh" "$n" "$ROOT/seeded/$n/patch.diff" C06 C07 C09 C10 C11 C12 C13 C18 C14
done
