#!/usr/bin/env bash
# tools/confirm_seeded.sh <worktree> <outdir>
# Confirms a sub-agent's seeded change in its scratch worktree: the patch applies to a clean checkout,
# the repository's own suite passes with it, the demonstration fails with it and passes without it.
set -u
WT="$1"; OUT="$2"
export CARGO_NET_OFFLINE=true
cd "$WT" || exit 2
git checkout -q -- . ; git clean -fdq -- scnr/src scnr/tests
git apply --check "$OUT/patch.diff" || { echo "patch does not apply"; exit 2; }
git apply "$OUT/patch.diff"
cargo test --workspace --no-fail-fast --offline >"$OUT/suite_with.log" 2>&1; S=$?
cp "$OUT/demo.rs" scnr/tests/demo.rs
cargo test -p scnr --test demo --offline >"$OUT/demo_with.log" 2>&1; W=$?
git apply -R "$OUT/patch.diff"
cargo test -p scnr --test demo --offline >"$OUT/demo_without.log" 2>&1; N=$?
rm -f scnr/tests/demo.rs
echo "$(basename "$WT"): suite_with_patch=$S demo_with_patch=$W demo_without_patch=$N"
[ $S = 0 ] && [ $W != 0 ] && [ $N = 0 ]
