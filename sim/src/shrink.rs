//! Minimisation before reporting: ddmin over the operation list, then world reduction.
//! A candidate is accepted only if the *same signature* persists.

use crate::props::Prop;
use crate::runner::replay;
use crate::spec::*;

pub struct Budget {
    pub execs: usize,
    pub deadline: std::time::Instant,
}
impl Budget {
    fn ok(&mut self) -> bool {
        if self.execs == 0 || std::time::Instant::now() > self.deadline {
            return false;
        }
        self.execs -= 1;
        true
    }
}

fn still_fails(prop: &dyn Prop, world: &World, ops: &[Op], sig: &str, b: &mut Budget) -> Option<Violation> {
    if !b.ok() {
        return None;
    }
    match replay(prop, world, ops) {
        Some(v) if v.signature == sig => Some(v),
        _ => None,
    }
}

fn ddmin_ops(prop: &dyn Prop, world: &World, ops: &mut Vec<Op>, v: &mut Violation, b: &mut Budget) {
    // everything after the failing step is irrelevant
    if v.step + 1 < ops.len() {
        let cand: Vec<Op> = ops[..=v.step.min(ops.len() - 1)].to_vec();
        if let Some(nv) = still_fails(prop, world, &cand, &v.signature, b) {
            *ops = cand;
            *v = nv;
        }
    }
    let mut n = 2usize;
    while ops.len() >= 2 {
        let chunk = (ops.len() + n - 1) / n;
        let mut reduced = false;
        let mut start = 0;
        while start < ops.len() {
            let end = (start + chunk).min(ops.len());
            let mut cand = ops[..start].to_vec();
            cand.extend_from_slice(&ops[end..]);
            if !cand.is_empty() {
                if let Some(nv) = still_fails(prop, world, &cand, &v.signature, b) {
                    *ops = cand;
                    *v = nv;
                    n = n.saturating_sub(1).max(2);
                    reduced = true;
                    break;
                }
            }
            start = end;
        }
        if !reduced {
            if n >= ops.len() {
                break;
            }
            n = (n * 2).min(ops.len());
        }
        if b.execs == 0 {
            break;
        }
    }
}

fn remap_cfg(ops: &[Op], removed: usize) -> Vec<Op> {
    ops.iter()
        .filter_map(|o| match o {
            Op::Build { sc, cfg, how } => {
                if *cfg == removed {
                    None
                } else {
                    Some(Op::Build { sc: *sc, cfg: if *cfg > removed { cfg - 1 } else { *cfg }, how: *how })
                }
            }
            x => Some(x.clone()),
        })
        .collect()
}

fn remap_input(ops: &[Op], removed: usize) -> Vec<Op> {
    ops.iter()
        .filter_map(|o| match o {
            Op::NewIter { it, sc, input, positions, with_offset } => {
                if *input == removed {
                    None
                } else {
                    Some(Op::NewIter {
                        it: *it,
                        sc: *sc,
                        input: if *input > removed { input - 1 } else { *input },
                        positions: *positions,
                        with_offset: *with_offset,
                    })
                }
            }
            x => Some(x.clone()),
        })
        .collect()
}

/// Which iterator slots are bound to which input at each op (needed to remap offsets).
fn slot_inputs(ops: &[Op]) -> Vec<Option<usize>> {
    let mut cur: std::collections::BTreeMap<usize, usize> = Default::default();
    let mut out = Vec::new();
    for o in ops {
        if let Op::NewIter { it, input, .. } = o {
            cur.insert(*it, *input);
        }
        out.push(o.iter_slot().and_then(|s| cur.get(&s).copied()));
    }
    out
}

/// Remove the character at byte range [pos, pos+len) of input `inp`, remapping offsets.
fn remove_char(world: &World, ops: &[Op], inp: usize, pos: usize, len: usize) -> (World, Vec<Op>) {
    let mut w = world.clone();
    w.inputs[inp].replace_range(pos..pos + len, "");
    let bound = slot_inputs(ops);
    let map = |o: usize| if o >= pos + len { o - len } else if o > pos { pos } else { o };
    let new_ops = ops
        .iter()
        .enumerate()
        .map(|(i, o)| {
            if bound[i] != Some(inp) {
                return o.clone();
            }
            match o {
                Op::SetOffset { it, offset } => Op::SetOffset { it: *it, offset: map(*offset) },
                Op::WithOffsetMid { it, offset } => Op::WithOffsetMid { it: *it, offset: map(*offset) },
                Op::Position { it, offset } => Op::Position { it: *it, offset: map(*offset) },
                Op::NewIter { it, sc, input, positions, with_offset } => Op::NewIter {
                    it: *it,
                    sc: *sc,
                    input: *input,
                    positions: *positions,
                    with_offset: with_offset.map(map),
                },
                x => x.clone(),
            }
        })
        .collect();
    (w, new_ops)
}

fn reduce_world(prop: &dyn Prop, world: &mut World, ops: &mut Vec<Op>, v: &mut Violation, b: &mut Budget) {
    macro_rules! try_accept {
        ($w:expr, $o:expr) => {{
            let w_: World = $w;
            let o_: Vec<Op> = $o;
            if let Some(nv) = still_fails(prop, &w_, &o_, &v.signature, b) {
                *world = w_;
                *ops = o_;
                *v = nv;
                true
            } else {
                false
            }
        }};
    }
    // unused configurations and inputs
    let mut ci = world.configs.len();
    while ci > 0 {
        ci -= 1;
        if world.configs.len() <= 1 {
            break;
        }
        let mut w = world.clone();
        w.configs.remove(ci);
        let o = remap_cfg(ops, ci);
        try_accept!(w, o);
    }
    let mut ii = world.inputs.len();
    while ii > 0 {
        ii -= 1;
        if world.inputs.len() <= 1 {
            break;
        }
        let mut w = world.clone();
        w.inputs.remove(ii);
        let o = remap_input(ops, ii);
        try_accept!(w, o);
    }
    // modes (only the last one of a configuration; transitions into it are dropped)
    for c in 0..world.configs.len() {
        while world.configs[c].len() > 1 {
            let mut w = world.clone();
            let last = w.configs[c].len() - 1;
            w.configs[c].pop();
            for m in w.configs[c].iter_mut() {
                m.transitions.retain(|t| t.1 != last);
            }
            if !try_accept!(w, ops.clone()) {
                break;
            }
        }
    }
    // lookaheads, transitions, patterns
    for c in 0..world.configs.len() {
        for m in 0..world.configs[c].len() {
            let mut p = world.configs[c][m].patterns.len();
            while p > 0 {
                p -= 1;
                if world.configs[c][m].patterns[p].lookahead.is_some() {
                    let mut w = world.clone();
                    w.configs[c][m].patterns[p].lookahead = None;
                    try_accept!(w, ops.clone());
                }
                let mut w = world.clone();
                w.configs[c][m].patterns.remove(p);
                try_accept!(w, ops.clone());
            }
            let mut t = world.configs[c][m].transitions.len();
            while t > 0 {
                t -= 1;
                let mut w = world.clone();
                w.configs[c][m].transitions.remove(t);
                try_accept!(w, ops.clone());
            }
        }
    }
    // pattern texts: drop characters (a candidate that no longer parses simply does not reproduce)
    for c in 0..world.configs.len() {
        for m in 0..world.configs[c].len() {
            for pi in 0..world.configs[c][m].patterns.len() {
                for which in 0..2 {
                    let mut changed = true;
                    while changed {
                        changed = false;
                        let text = if which == 0 {
                            world.configs[c][m].patterns[pi].pattern.clone()
                        } else {
                            match &world.configs[c][m].patterns[pi].lookahead {
                                Some(la) => la.pattern.clone(),
                                None => break,
                            }
                        };
                        let idxs: Vec<(usize, char)> = text.char_indices().collect();
                        if idxs.len() <= 1 {
                            break;
                        }
                        for (pos, ch) in idxs.into_iter().rev() {
                            if b.execs == 0 {
                                return;
                            }
                            let mut t = text.clone();
                            t.replace_range(pos..pos + ch.len_utf8(), "");
                            let mut w = world.clone();
                            if which == 0 {
                                w.configs[c][m].patterns[pi].pattern = t;
                            } else {
                                w.configs[c][m].patterns[pi].lookahead.as_mut().unwrap().pattern = t;
                            }
                            if try_accept!(w, ops.clone()) {
                                changed = true;
                                break;
                            }
                        }
                    }
                }
            }
        }
    }
    // inputs: drop characters, from the end
    for i in 0..world.inputs.len() {
        let mut changed = true;
        while changed {
            changed = false;
            let chars: Vec<(usize, char)> = world.inputs[i].char_indices().collect();
            for (pos, ch) in chars.into_iter().rev() {
                if b.execs == 0 {
                    return;
                }
                let (w, o) = remove_char(world, ops, i, pos, ch.len_utf8());
                if try_accept!(w, o) {
                    changed = true;
                    break;
                }
            }
        }
    }
}

pub fn minimise(prop: &dyn Prop, world: &World, ops: &[Op], v: &Violation, max_execs: usize, max_secs: u64) -> (World, Vec<Op>, Violation) {
    let mut b = Budget { execs: max_execs, deadline: std::time::Instant::now() + std::time::Duration::from_secs(max_secs) };
    let mut w = world.clone();
    let mut o = ops.to_vec();
    let mut vv = v.clone();
    // the violation must reproduce at all before anything is attempted
    match replay(prop, &w, &o) {
        Some(x) if x.signature == v.signature => vv = x,
        _ => return (w, o, vv),
    }
    ddmin_ops(prop, &w, &mut o, &mut vv, &mut b);
    reduce_world(prop, &mut w, &mut o, &mut vv, &mut b);
    ddmin_ops(prop, &w, &mut o, &mut vv, &mut b);
    (w, o, vv)
}
