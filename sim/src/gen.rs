//! Generators: regex grammar of the supported subset, scanner configurations, mode graphs,
//! near-variants, failing variants, inputs. All choices come from the `Rng` handed in.

use crate::rng::Rng;
use crate::spec::*;

// ---------------------------------------------------------------------------------------------
// Regex AST of the supported subset
// ---------------------------------------------------------------------------------------------

#[derive(Clone, Debug)]
pub enum ClassItem {
    Ch(char),
    Range(char, char),
    Perl(char),
}

#[derive(Clone, Debug)]
pub enum RepKind {
    Opt,
    Star,
    Plus,
    Exactly(u32),
    AtLeast(u32),
    Bounded(u32, u32),
}

#[derive(Clone, Debug)]
pub enum Rx {
    Empty,
    Lit(char),
    Dot,
    Class { neg: bool, items: Vec<ClassItem> },
    Perl(char),
    /// a class written out literally (set operations, ASCII and Unicode classes, nesting) with
    /// some known members for witness strings
    Raw { text: String, members: Vec<char> },
    Cat(Vec<Rx>),
    Alt(Vec<Rx>),
    Rep(Box<Rx>, RepKind),
    Group(Box<Rx>, bool),
}

fn esc_lit(c: char, out: &mut String) {
    match c {
        '\n' => out.push_str("\\n"),
        '\r' => out.push_str("\\r"),
        '\t' => out.push_str("\\t"),
        '"' => out.push_str("\\u{22}"),
        '\\' | '.' | '+' | '*' | '?' | '(' | ')' | '|' | '[' | ']' | '{' | '}' | '^' | '$'
        | '#' | '&' | '-' | '~' => {
            out.push('\\');
            out.push(c);
        }
        _ => out.push(c),
    }
}

fn esc_class(c: char, out: &mut String) {
    match c {
        '\n' => out.push_str("\\n"),
        '\r' => out.push_str("\\r"),
        '\t' => out.push_str("\\t"),
        '\\' | ']' | '[' | '^' | '-' | '&' | '~' => {
            out.push('\\');
            out.push(c);
        }
        _ => out.push(c),
    }
}

impl Rx {
    pub fn nullable(&self) -> bool {
        match self {
            Rx::Empty => true,
            Rx::Lit(_) | Rx::Dot | Rx::Class { .. } | Rx::Perl(_) | Rx::Raw { .. } => false,
            Rx::Cat(v) => v.iter().all(|r| r.nullable()),
            Rx::Alt(v) => v.iter().any(|r| r.nullable()),
            Rx::Rep(r, k) => match k {
                RepKind::Opt | RepKind::Star => true,
                RepKind::Plus => r.nullable(),
                RepKind::Exactly(n) | RepKind::AtLeast(n) | RepKind::Bounded(n, _) => {
                    *n == 0 || r.nullable()
                }
            },
            Rx::Group(r, _) => r.nullable(),
        }
    }

    fn is_atom(&self) -> bool {
        matches!(
            self,
            Rx::Lit(_) | Rx::Dot | Rx::Class { .. } | Rx::Perl(_) | Rx::Raw { .. } | Rx::Group(..)
        )
    }

    pub fn render(&self) -> String {
        let mut s = String::new();
        self.render_into(&mut s);
        s
    }

    fn render_into(&self, out: &mut String) {
        match self {
            Rx::Empty => {}
            Rx::Lit(c) => esc_lit(*c, out),
            Rx::Dot => out.push('.'),
            Rx::Raw { text, .. } => out.push_str(text),
            Rx::Perl(c) => {
                out.push('\\');
                out.push(*c);
            }
            Rx::Class { neg, items } => {
                out.push('[');
                if *neg {
                    out.push('^');
                }
                for it in items {
                    match it {
                        ClassItem::Ch(c) => esc_class(*c, out),
                        ClassItem::Range(a, b) => {
                            esc_class(*a, out);
                            out.push('-');
                            esc_class(*b, out);
                        }
                        ClassItem::Perl(c) => {
                            out.push('\\');
                            out.push(*c);
                        }
                    }
                }
                out.push(']');
            }
            Rx::Cat(v) => {
                for r in v {
                    if matches!(r, Rx::Alt(_)) {
                        out.push_str("(?:");
                        r.render_into(out);
                        out.push(')');
                    } else {
                        r.render_into(out);
                    }
                }
            }
            Rx::Alt(v) => {
                for (i, r) in v.iter().enumerate() {
                    if i > 0 {
                        out.push('|');
                    }
                    r.render_into(out);
                }
            }
            Rx::Rep(r, k) => {
                if r.is_atom() {
                    r.render_into(out);
                } else {
                    out.push_str("(?:");
                    r.render_into(out);
                    out.push(')');
                }
                match k {
                    RepKind::Opt => out.push('?'),
                    RepKind::Star => out.push('*'),
                    RepKind::Plus => out.push('+'),
                    RepKind::Exactly(n) => out.push_str(&format!("{{{}}}", n)),
                    RepKind::AtLeast(n) => out.push_str(&format!("{{{},}}", n)),
                    RepKind::Bounded(a, b) => out.push_str(&format!("{{{},{}}}", a, b)),
                }
            }
            Rx::Group(r, capturing) => {
                out.push_str(if *capturing { "(" } else { "(?:" });
                r.render_into(out);
                out.push(')');
            }
        }
    }

    /// A random string matched by the expression (best effort for negated classes).
    pub fn witness(&self, rng: &mut Rng, alphabet: &[char], out: &mut String) {
        match self {
            Rx::Empty => {}
            Rx::Lit(c) => out.push(*c),
            Rx::Dot => {
                let cands: Vec<char> = alphabet
                    .iter()
                    .copied()
                    .filter(|c| *c != '\n' && *c != '\r')
                    .collect();
                out.push(if cands.is_empty() { 'a' } else { *rng.pick(&cands) });
            }
            Rx::Perl(c) => out.push(perl_witness(*c, rng)),
            Rx::Raw { members, .. } => out.push(if members.is_empty() { 'a' } else { *rng.pick(members) }),
            Rx::Class { neg, items } => {
                if !*neg {
                    match rng.pick(items) {
                        ClassItem::Ch(c) => out.push(*c),
                        ClassItem::Range(a, b) => out.push(if rng.chance(1, 2) { *a } else { *b }),
                        ClassItem::Perl(c) => out.push(perl_witness(*c, rng)),
                    }
                } else {
                    let cands: Vec<char> = alphabet
                        .iter()
                        .copied()
                        .filter(|c| !items.iter().any(|it| item_contains(it, *c)))
                        .collect();
                    out.push(if cands.is_empty() { '\u{1F600}' } else { *rng.pick(&cands) });
                }
            }
            Rx::Cat(v) => {
                for r in v {
                    r.witness(rng, alphabet, out)
                }
            }
            Rx::Alt(v) => rng.pick(v).clone().witness(rng, alphabet, out),
            Rx::Rep(r, k) => {
                let n = match k {
                    RepKind::Opt => rng.below(2),
                    RepKind::Star => rng.below(3),
                    RepKind::Plus => 1 + rng.below(2),
                    RepKind::Exactly(n) => *n as usize,
                    RepKind::AtLeast(n) => *n as usize + rng.below(2),
                    RepKind::Bounded(a, b) => rng.range(*a as usize, *b as usize),
                };
                for _ in 0..n {
                    r.witness(rng, alphabet, out)
                }
            }
            Rx::Group(r, _) => r.witness(rng, alphabet, out),
        }
    }
}

fn perl_witness(c: char, rng: &mut Rng) -> char {
    match c {
        'd' => *rng.pick(&['0', '1', '7']),
        'w' => *rng.pick(&['a', 'b', '_', '1']),
        's' => *rng.pick(&[' ', '\n', '\t']),
        'D' => *rng.pick(&['a', '-']),
        'W' => *rng.pick(&['-', ' ', '#']),
        'S' => *rng.pick(&['a', '#', '1']),
        _ => 'a',
    }
}

fn perl_contains(p: char, c: char) -> bool {
    let d = c.is_ascii_digit();
    let w = c.is_alphanumeric() || c == '_';
    let s = c.is_whitespace();
    match p {
        'd' => d,
        'w' => w,
        's' => s,
        'D' => !d,
        'W' => !w,
        'S' => !s,
        _ => false,
    }
}

fn item_contains(it: &ClassItem, c: char) -> bool {
    match it {
        ClassItem::Ch(x) => *x == c,
        ClassItem::Range(a, b) => *a <= c && c <= *b,
        ClassItem::Perl(p) => perl_contains(*p, c),
    }
}

// ---------------------------------------------------------------------------------------------
// Knobs
// ---------------------------------------------------------------------------------------------

#[derive(Clone, Debug)]
pub struct Knobs {
    pub configs: (usize, usize),
    pub modes: (usize, usize),
    pub patterns: (usize, usize),
    /// 0 = never, otherwise probability per pattern in percent (drawn per run by the caller)
    pub lookahead_pct: usize,
    pub disjoint_types: bool,
    pub max_transitions: usize,
    pub inputs: (usize, usize),
    pub input_len: (usize, usize),
    pub newline_rich: bool,
    pub allow_nullable: bool,
    pub allow_empty_mode: bool,
    /// names that need escaping in DOT output (C18 only)
    pub fancy_names: bool,
    pub max_depth: usize,
    /// allow two patterns of one mode to carry the same token type (rarely)
    pub duplicate_types: bool,
    /// percentage of configurations drawn "wide": 5-12 modes, up to 12 shallow patterns per mode, up
    /// to 20 transitions per mode (anything that searches, indexes or narrows by a count beyond the
    /// usual handful should meet it)
    pub wide_pct: usize,
}

impl Default for Knobs {
    fn default() -> Self {
        Knobs {
            configs: (1, 1),
            modes: (1, 3),
            patterns: (1, 4),
            lookahead_pct: 0,
            disjoint_types: false,
            max_transitions: 3,
            inputs: (1, 2),
            input_len: (0, 40),
            newline_rich: false,
            allow_nullable: true,
            allow_empty_mode: false,
            fancy_names: false,
            max_depth: 3,
            duplicate_types: true,
            wide_pct: 4,
        }
    }
}

pub const PATTERN_POOL: &[char] = &[
    'a', 'b', 'c', '0', '1', '\u{e9}', '\u{20ac}', '\u{1F600}', '\n', ' ', '"', '-', 'x', 'a', 'b', '\n',
    // characters whose low byte is 0x0A / 0x0D without being line breaks, other Unicode line
    // separators (which must NOT count as line breaks), a byte order mark
    '\u{10a}', '\u{4e0a}', '\u{2028}', '\u{10d}', '\0', '\u{b}', '\u{10061}',
];
pub const UNMATCHED_POOL: &[char] = &['#', '~', '\u{df}', '\u{2192}', '\r', '\t', '%', '#', '~', '\u{200a}', '\u{85}', '\u{feff}', '\u{30a}', '\0', '\u{b}', '\u{c}', '\u{f600}', '\u{1000a}'];

#[derive(Clone, Debug)]
pub struct Alphabet {
    pub pat: Vec<char>,
    pub all: Vec<char>,
}

pub fn gen_alphabet(rng: &mut Rng, newline_rich: bool) -> Alphabet {
    let n = rng.range(2, 5);
    let mut pat: Vec<char> = Vec::new();
    while pat.len() < n {
        let c = *rng.pick(PATTERN_POOL);
        if !pat.contains(&c) {
            pat.push(c);
        }
    }
    let mut all = pat.clone();
    let u = rng.range(1, 3);
    for _ in 0..u {
        let c = *rng.pick(UNMATCHED_POOL);
        if !all.contains(&c) {
            all.push(c);
        }
    }
    if !all.contains(&'\n') {
        all.push('\n');
    }
    if newline_rich {
        // weight newlines more heavily
        all.push('\n');
        all.push('\n');
    }
    // always at least one multi-byte char in the input alphabet
    if !all.iter().any(|c| c.len_utf8() > 1) {
        all.push(*rng.pick(&['\u{e9}', '\u{20ac}', '\u{1F600}', '\u{df}']));
    }
    Alphabet { pat, all }
}

// ---------------------------------------------------------------------------------------------
// Regex generation
// ---------------------------------------------------------------------------------------------

/// Class shapes beyond simple brackets: set operations, nesting, ASCII and Unicode classes.
const RAW_CLASSES: &[(&str, &[char])] = &[
    ("[a-c&&[^b]]", &['a', 'c']),
    ("[\\w--\\d]", &['a', 'x', '_']),
    ("[a-c~~b-x]", &['a', 'x']),
    ("[[a-c][x-z]]", &['a', 'b', 'x']),
    ("[^[a-c]0]", &['1', '-', 'x']),
    ("[[:alpha:]]", &['a', 'b', 'x']),
    ("[[:^digit:]]", &['a', '-', ' ']),
    ("[[:space:]x]", &[' ', 'x', '\n']),
    ("\\pL", &['a', '\u{e9}', 'x']),
    ("\\p{Alphabetic}", &['a', '\u{e9}']),
    ("\\PN", &['a', '-']),
    ("\\pN", &['0', '1']),
    ("[\\pL&&[^a]]", &['b', '\u{e9}']),
    ("[\\s--\\n]", &[' ', '\t']),
    ("[a\\-c]", &['a', '-', 'c']),
    ("[\\]\\[]", &[']', '[']),
    ("[\\\\\"]", &['\\', '"']),
    ("[^\\\"]", &['a', '\\']),
    ("[\"\\\\]", &['\\', '"']),
    ("[\\u{80}-\\u{10FFFF}]", &['\u{e9}', '\u{20ac}', '\u{1F600}']),
    ("[\\u{0}-\\u{D7FF}]", &['a', '\u{e9}', '\n']),
    ("[^\\u{0}-\\u{FFFF}]", &['\u{1F600}', '\u{10061}']),
    ("[a-\\u{10FFFF}]", &['b', '\u{20ac}']),
];

fn gen_class(rng: &mut Rng, al: &Alphabet) -> Rx {
    if rng.chance(1, 7) {
        let (t, m) = rng.pick(RAW_CLASSES);
        return Rx::Raw { text: t.to_string(), members: m.to_vec() };
    }
    let neg = rng.chance(1, 4);
    let n = rng.range(1, 3);
    let mut items = Vec::new();
    for _ in 0..n {
        match rng.below(10) {
            0 => items.push(ClassItem::Perl(*rng.pick(&['d', 'w', 's']))),
            1 | 2 => {
                let (a, b) = *rng.pick(&[('a', 'c'), ('0', '9'), ('a', 'z'), ('b', 'x'), ('\u{e0}', '\u{ff}')]);
                items.push(ClassItem::Range(a, b));
            }
            _ => items.push(ClassItem::Ch(*rng.pick(&al.pat))),
        }
    }
    Rx::Class { neg, items }
}

fn gen_atom(rng: &mut Rng, al: &Alphabet, depth: usize) -> Rx {
    let w = if depth == 0 { [60, 8, 20, 6, 0] } else { [45, 7, 18, 5, 25] };
    match rng.weighted(&w) {
        0 => Rx::Lit(*rng.pick(&al.pat)),
        1 => Rx::Dot,
        2 => gen_class(rng, al),
        3 => Rx::Perl(*rng.pick(&['d', 'w', 's', 'D', 'W', 'S'])),
        _ => Rx::Group(Box::new(gen_rx(rng, al, depth - 1)), rng.chance(2, 3)),
    }
}

fn gen_rep_kind(rng: &mut Rng) -> RepKind {
    match rng.weighted(&[20, 25, 25, 8, 8, 14]) {
        0 => RepKind::Opt,
        1 => RepKind::Star,
        2 => RepKind::Plus,
        3 => RepKind::Exactly(rng.range(0, 3) as u32),
        4 => RepKind::AtLeast(rng.range(0, 2) as u32),
        _ => {
            let a = rng.range(0, 2) as u32;
            RepKind::Bounded(a, a + rng.range(0, 2) as u32)
        }
    }
}

fn gen_piece(rng: &mut Rng, al: &Alphabet, depth: usize) -> Rx {
    let a = gen_atom(rng, al, depth);
    if rng.chance(35, 100) {
        Rx::Rep(Box::new(a), gen_rep_kind(rng))
    } else {
        a
    }
}

fn gen_cat(rng: &mut Rng, al: &Alphabet, depth: usize) -> Rx {
    let n = rng.weighted(&[0, 45, 35, 15, 5]);
    if n == 1 {
        return gen_piece(rng, al, depth);
    }
    Rx::Cat((0..n).map(|_| gen_piece(rng, al, depth)).collect())
}

pub fn gen_rx(rng: &mut Rng, al: &Alphabet, depth: usize) -> Rx {
    let n = rng.weighted(&[0, 70, 22, 8]);
    if n == 1 {
        return gen_cat(rng, al, depth);
    }
    let mut alts: Vec<Rx> = (0..n).map(|_| gen_cat(rng, al, depth)).collect();
    if rng.chance(1, 12) {
        let i = rng.below(alts.len() + 1);
        alts.insert(i, Rx::Empty);
    }
    Rx::Alt(alts)
}

/// A pattern expression; `allow_nullable = false` retries until non-nullable.
pub fn gen_pattern_rx(rng: &mut Rng, al: &Alphabet, depth: usize, allow_nullable: bool) -> Rx {
    for _ in 0..20 {
        let r = gen_rx(rng, al, depth);
        if allow_nullable || !r.nullable() {
            return r;
        }
    }
    Rx::Lit(*rng.pick(&al.pat))
}

/// Lookahead expressions must not match the empty string.
pub fn gen_lookahead_rx(rng: &mut Rng, al: &Alphabet) -> Rx {
    for _ in 0..20 {
        let r = gen_rx(rng, al, 1);
        if !r.nullable() {
            return r;
        }
    }
    Rx::Lit(*rng.pick(&al.pat))
}

// ---------------------------------------------------------------------------------------------
// Configurations
// ---------------------------------------------------------------------------------------------

/// Token types are arbitrary numbers: small, medium, and values around powers of two / beyond
/// 16 bits (anything that hashes, masks or truncates a token type should meet its edge cases).
pub fn gen_token_type(rng: &mut Rng) -> usize {
    match rng.below(20) {
        0..=5 => rng.below(6),
        6..=13 => rng.below(60),
        14..=16 => 60 + rng.below(200),
        17..=18 => *rng.pick(&[63, 64, 65, 127, 128, 129, 191, 192, 255, 256, 257, 1023, 1024, 4095, 4096, 65535, 65536, 70000]),
        // scnr's token types are 32 bit wide: larger numbers are reported modulo 2^32 (the models
        // compare modulo 2^32 as well, and the generators keep types distinct modulo 2^32)
        _ => *rng.pick(&[u32::MAX as usize, 1usize << 32, (1usize << 32) + 5, usize::MAX, 70001, 1 << 20]),
    }
}

/// equality of token types as scnr sees them (32 bit)
pub fn same_type(a: usize, b: usize) -> bool {
    a as u32 == b as u32
}

pub struct GenConfig {
    pub config: Config,
    /// per mode, per pattern: the expression (for witnesses)
    pub rx: Vec<Vec<Rx>>,
}

impl GenConfig {
    pub fn has_nullable_pattern(&self) -> bool {
        self.rx.iter().any(|m| m.iter().any(|r| r.nullable()))
    }
    pub fn has_empty_mode(&self) -> bool {
        self.rx.iter().any(|m| m.is_empty())
    }
}

const FANCY_NAMES: &[&str] = &["with space", "Q\"uote", "\u{fc}ml\u{e4}ut", "back\\slash", "semi;colon", "brace{}", "dot.ted", "v1.2.", ".hidden", "a.dot"];

pub fn gen_config(rng: &mut Rng, al: &Alphabet, k: &Knobs) -> GenConfig {
    let wide = k.wide_pct > 0 && k.modes.1 > 1 && rng.chance(k.wide_pct, 100);
    let (modes_r, pat_hi, max_depth, max_transitions) =
        if wide { ((5, 12), k.patterns.1.max(12), k.max_depth.min(1), k.max_transitions.max(20)) } else { (k.modes, k.patterns.1, k.max_depth, k.max_transitions) };
    let n_modes = rng.range(modes_r.0, modes_r.1);
    // token type pool: sparse numbers
    let pool_n = if wide { rng.range(14, 24) } else { rng.range(3, 9).max(pat_hi) };
    let mut pool: Vec<usize> = Vec::new();
    while pool.len() < pool_n {
        let t = gen_token_type(rng);
        if !pool.iter().any(|x| same_type(*x, t)) {
            pool.push(t);
        }
    }
    let mut config = Vec::new();
    let mut rxs = Vec::new();
    for m in 0..n_modes {
        let mut n_pat = rng.range(k.patterns.0, pat_hi);
        if k.allow_empty_mode && rng.chance(1, 25) {
            n_pat = 0;
        }
        let avail: Vec<usize> = if k.disjoint_types {
            pool.iter().copied().enumerate().filter(|(i, _)| i % n_modes == m).map(|(_, t)| t).collect()
        } else {
            pool.clone()
        };
        let mut types: Vec<usize> = Vec::new();
        let mut patterns = Vec::new();
        let mut mode_rx = Vec::new();
        for _ in 0..n_pat {
            let cands: Vec<usize> = avail.iter().copied().filter(|t| !types.iter().any(|x| same_type(*x, *t))).collect();
            if cands.is_empty() {
                break;
            }
            // rarely two patterns of one mode report the same token type (legal: the type of a token
            // says what it is, not which pattern found it)
            let t = if k.duplicate_types && types.len() >= 2 && rng.chance(1, 10) { types[0] } else { *rng.pick(&cands) };
            types.push(t);
            let depth = rng.range(0, max_depth);
            let rx = gen_pattern_rx(rng, al, depth, k.allow_nullable);
            let lookahead = if k.lookahead_pct > 0 && rng.chance(k.lookahead_pct, 100) {
                Some(LookaheadSpec {
                    is_positive: rng.chance(1, 2),
                    pattern: gen_lookahead_rx(rng, al).render(),
                })
            } else {
                None
            };
            patterns.push(PatternSpec { pattern: rx.render(), token_type: t, lookahead });
            mode_rx.push(rx);
        }
        // transitions: sorted by token type, targets existing modes
        let mut transitions: Vec<(usize, usize)> = Vec::new();
        if n_modes > 1 || rng.chance(1, 3) {
            let nt = rng.range(0, max_transitions);
            for _ in 0..nt {
                // mostly on types this mode produces, sometimes on foreign / unknown ones
                let t = if !types.is_empty() && rng.chance(3, 4) {
                    *rng.pick(&types)
                } else if rng.chance(1, 2) {
                    *rng.pick(&pool)
                } else {
                    gen_token_type(rng)
                };
                if !transitions.iter().any(|(x, _)| same_type(*x, t)) {
                    transitions.push((t, rng.below(n_modes)));
                }
            }
            // sorted the way scnr sees the token types (32 bit)
            transitions.sort_by_key(|x| (x.0 as u32, x.1));
        }
        let name = if m > 0 && rng.chance(1, 12) {
            // the conventional name of the start mode, but not at index 0
            "INITIAL".to_string()
        } else if k.fancy_names && rng.chance(1, 6) {
            format!("{}{}", rng.pick(FANCY_NAMES), m)
        } else if m == 0 && rng.chance(1, 3) {
            "INITIAL".to_string()
        } else if !k.fancy_names && rng.chance(1, 40) {
            // a very long mode name (file names are derived from mode names only in the DOT export,
            // whose worlds use fancy_names and therefore never get one)
            format!("L{}{}", "o".repeat(rng.range(64, 300)), m)
        } else {
            format!("M{}", m)
        };
        config.push(ModeSpec { name, patterns, transitions });
        rxs.push(mode_rx);
    }
    GenConfig { config, rx: rxs }
}

/// Is this configuration expressible through `add_patterns`?
pub fn is_simple(cfg: &Config) -> bool {
    cfg.len() == 1
        && cfg[0].name == "INITIAL"
        && cfg[0].transitions.is_empty()
        && cfg[0]
            .patterns
            .iter()
            .enumerate()
            .all(|(i, p)| p.token_type == i && p.lookahead.is_none())
}

/// Re-number a single-mode configuration so that `add_patterns` can express it.
pub fn make_simple(cfg: &Config) -> Config {
    let m = &cfg[0];
    vec![ModeSpec {
        name: "INITIAL".to_string(),
        patterns: m
            .patterns
            .iter()
            .enumerate()
            .map(|(i, p)| PatternSpec { pattern: p.pattern.clone(), token_type: i, lookahead: None })
            .collect(),
        transitions: vec![],
    }]
}

// ---------------------------------------------------------------------------------------------
// Inputs
// ---------------------------------------------------------------------------------------------

pub fn gen_input(rng: &mut Rng, al: &Alphabet, gc: &[&GenConfig], len: (usize, usize)) -> String {
    let target = match rng.below(12) {
        0 => 0,
        1 => rng.range(len.0, 3.max(len.0).min(len.1)),
        _ => rng.range(len.0, len.1),
    };
    let mut s = String::new();
    let shape = rng.below(5);
    let long = len.1 > 60;
    let mut n = 0;
    while n < target {
        match shape {
            // only characters of a few kinds (often: nothing any pattern matches)
            4 => {
                let few: Vec<char> = al.all.iter().rev().take(2).copied().collect();
                s.push(*rng.pick(&few));
                n += 1;
            }
            // uniform
            0 => {
                s.push(*rng.pick(&al.all));
                n += 1;
            }
            // runs
            1 => {
                let c = *rng.pick(&al.all);
                let r = if long && rng.chance(1, 4) { rng.range(20, len.1.max(21)) } else { rng.range(1, 4) };
                for _ in 0..r {
                    s.push(c);
                }
                n += r;
            }
            // witnesses of patterns with separators
            _ => {
                let mut w = String::new();
                let g = rng.pick(gc);
                let modes: Vec<&Vec<Rx>> = g.rx.iter().filter(|m| !m.is_empty()).collect();
                if !modes.is_empty() && rng.chance(4, 5) {
                    let m = rng.pick(&modes);
                    let rx = rng.pick(m);
                    rx.witness(rng, &al.all, &mut w);
                }
                if w.is_empty() || rng.chance(1, 3) {
                    w.push(*rng.pick(&al.all));
                }
                n += w.chars().count();
                s.push_str(&w);
            }
        }
    }
    // cut to the maximum length on a char boundary
    let cut: String = s.chars().take(len.1).collect();
    let mut out = cut;
    if rng.chance(1, 6) && !out.ends_with('\n') {
        out.push('\n');
    }
    out
}

/// All character boundaries of `s` (0 and len included).
pub fn boundaries(s: &str) -> Vec<usize> {
    let mut v: Vec<usize> = s.char_indices().map(|(i, _)| i).collect();
    v.push(s.len());
    v
}

// ---------------------------------------------------------------------------------------------
// Worlds
// ---------------------------------------------------------------------------------------------

pub struct GenWorld {
    pub world: World,
    pub configs: Vec<GenConfig>,
    pub alphabet: Alphabet,
}

pub fn gen_world(rng: &mut Rng, k: &Knobs) -> GenWorld {
    // scnr re-runs a lookahead automaton at every candidate end and retries from every skipped
    // character: cubic in the length of a run. That is performance, not progress; very long
    // inputs are therefore only combined with lookahead-free configurations, so that the hang
    // watchdog (20 s) never mistakes slowness for a hang.
    let mut k = k.clone();
    if k.lookahead_pct > 0 && k.input_len.1 > 300 {
        k.input_len.1 = 300;
    }
    let k = &k;
    let al = gen_alphabet(rng, k.newline_rich);
    let nc = rng.range(k.configs.0, k.configs.1);
    let configs: Vec<GenConfig> = (0..nc).map(|_| gen_config(rng, &al, k)).collect();
    let ni = rng.range(k.inputs.0, k.inputs.1);
    let refs: Vec<&GenConfig> = configs.iter().collect();
    let inputs: Vec<String> = (0..ni).map(|_| gen_input(rng, &al, &refs, k.input_len)).collect();
    let world = World {
        configs: configs.iter().map(|c| c.config.clone()).collect(),
        inputs,
        note: format!("la_pct={} disjoint={} nl_rich={}", k.lookahead_pct, k.disjoint_types, k.newline_rich),
    };
    GenWorld { world, configs, alphabet: al }
}

/// Per-run lookahead rate: 0 / low / high.
pub fn draw_lookahead_pct(rng: &mut Rng) -> usize {
    *rng.pick(&[0, 0, 15, 15, 50])
}

// ---------------------------------------------------------------------------------------------
// Near-variants and failing variants (C13)
// ---------------------------------------------------------------------------------------------

pub const VARIANT_KINDS: &[&str] = &[
    "token_type", "swap_patterns", "la_add", "la_remove", "la_flip", "la_change", "tr_add",
    "tr_retarget", "tr_remove", "rename_mode", "swap_modes", "pattern_char", "dup_mode", "drop_pattern", "la_char", "swap_mode_names",
];

/// Returns a configuration that differs from `base` in exactly one aspect, or None if the
/// aspect does not apply to this base.
pub fn near_variant(rng: &mut Rng, base: &Config, kind: &str, al: &Alphabet) -> Option<Config> {
    let mut c = base.clone();
    let mi = rng.below(c.len());
    let np = c[mi].patterns.len();
    match kind {
        "token_type" => {
            if np == 0 {
                return None;
            }
            let pi = rng.below(np);
            let used: Vec<usize> = c[mi].patterns.iter().map(|p| p.token_type).collect();
            let mut t = gen_token_type(rng);
            while used.iter().any(|x| same_type(*x, t)) {
                t = gen_token_type(rng);
            }
            c[mi].patterns[pi].token_type = t;
        }
        "swap_patterns" => {
            if np < 2 {
                return None;
            }
            let a = rng.below(np);
            let mut b = rng.below(np);
            while b == a {
                b = rng.below(np);
            }
            c[mi].patterns.swap(a, b);
        }
        "la_add" => {
            let cands: Vec<usize> = (0..np).filter(|i| c[mi].patterns[*i].lookahead.is_none()).collect();
            if cands.is_empty() {
                return None;
            }
            let pi = *rng.pick(&cands);
            c[mi].patterns[pi].lookahead = Some(LookaheadSpec {
                is_positive: rng.chance(1, 2),
                pattern: gen_lookahead_rx(rng, al).render(),
            });
        }
        "la_remove" | "la_flip" | "la_change" | "la_char" => {
            let cands: Vec<usize> = (0..np).filter(|i| c[mi].patterns[*i].lookahead.is_some()).collect();
            if cands.is_empty() {
                return None;
            }
            let pi = *rng.pick(&cands);
            match kind {
                "la_remove" => c[mi].patterns[pi].lookahead = None,
                "la_flip" => {
                    let la = c[mi].patterns[pi].lookahead.as_mut().unwrap();
                    la.is_positive = !la.is_positive;
                }
                "la_char" => {
                    // the lookahead pattern differs by one character
                    let la = c[mi].patterns[pi].lookahead.as_mut().unwrap();
                    let mut t = String::new();
                    esc_lit(*rng.pick(&al.pat), &mut t);
                    la.pattern.push_str(&t);
                }
                _ => {
                    let la = c[mi].patterns[pi].lookahead.as_mut().unwrap();
                    let mut p = gen_lookahead_rx(rng, al).render();
                    if p == la.pattern {
                        p.push('x');
                    }
                    la.pattern = p;
                }
            }
        }
        "tr_add" => {
            let used: Vec<usize> = c[mi].transitions.iter().map(|t| t.0).collect();
            let types: Vec<usize> = c[mi].patterns.iter().map(|p| p.token_type).filter(|t| !used.iter().any(|x| same_type(*x, *t))).collect();
            if types.is_empty() {
                return None;
            }
            let t = *rng.pick(&types);
            let target = rng.below(c.len());
            c[mi].transitions.push((t, target));
            c[mi].transitions.sort_by_key(|x| (x.0 as u32, x.1));
        }
        "tr_retarget" => {
            if c[mi].transitions.is_empty() || c.len() < 2 {
                return None;
            }
            let n_modes = c.len();
            let ti = rng.below(c[mi].transitions.len());
            let old = c[mi].transitions[ti].1;
            let mut t = rng.below(n_modes);
            while t == old {
                t = rng.below(n_modes);
            }
            c[mi].transitions[ti].1 = t;
        }
        "tr_remove" => {
            if c[mi].transitions.is_empty() {
                return None;
            }
            let ti = rng.below(c[mi].transitions.len());
            c[mi].transitions.remove(ti);
        }
        "rename_mode" => {
            c[mi].name.push('_');
        }
        "swap_mode_names" => {
            // only the NAMES of two modes are exchanged (patterns and transitions stay in place)
            if c.len() < 2 {
                return None;
            }
            let a = rng.below(c.len());
            let mut b = rng.below(c.len());
            while b == a {
                b = rng.below(c.len());
            }
            let (na, nb) = (c[a].name.clone(), c[b].name.clone());
            c[a].name = nb;
            c[b].name = na;
        }
        "swap_modes" => {
            if c.len() < 2 {
                return None;
            }
            let a = rng.below(c.len());
            let mut b = rng.below(c.len());
            while b == a {
                b = rng.below(c.len());
            }
            // swap the modes and keep transitions pointing at the same *indices* (so the
            // behaviour really differs: mode 0 is now another mode)
            c.swap(a, b);
        }
        "pattern_char" => {
            if np == 0 {
                return None;
            }
            let pi = rng.below(np);
            // replace the whole pattern by a fresh one / append a literal
            if rng.chance(1, 2) {
                let mut s = String::new();
                esc_lit(*rng.pick(&al.pat), &mut s);
                c[mi].patterns[pi].pattern.push_str(&s);
            } else {
                c[mi].patterns[pi].pattern = gen_pattern_rx(rng, al, 1, true).render();
            }
        }
        "dup_mode" => {
            let mut m = c[mi].clone();
            m.name.push_str("_dup");
            c.push(m);
        }
        "drop_pattern" => {
            if np < 2 {
                return None;
            }
            let pi = rng.below(np);
            c[mi].patterns.remove(pi);
        }
        _ => return None,
    }
    if c == *base {
        None
    } else {
        Some(c)
    }
}

/// For `add_patterns`-style configurations: join two adjacent patterns into one with a separator
/// character (a raw line feed, '|', ',' ...). The results are different pattern *lists* whose
/// concatenations coincide — anything that keys a cache by a joined string confuses them.
pub fn merge_simple_variant(rng: &mut Rng, cfg: &Config) -> Option<Config> {
    if !is_simple(cfg) || cfg[0].patterns.len() < 2 {
        return None;
    }
    let sep = *rng.pick(&["\n", "|", ",", " ", ";", "\t", "\u{1f}", "\u{0}", "\n"]);
    let i = rng.below(cfg[0].patterns.len() - 1);
    let mut pats: Vec<String> = cfg[0].patterns.iter().map(|p| p.pattern.clone()).collect();
    let b = pats.remove(i + 1);
    pats[i] = format!("{}{}{}", pats[i], sep, b);
    Some(vec![ModeSpec {
        name: "INITIAL".to_string(),
        patterns: pats.into_iter().enumerate().map(|(i, p)| PatternSpec { pattern: p, token_type: i, lookahead: None }).collect(),
        transitions: vec![],
    }])
}

/// "class_then_error": TWO defects in one configuration, in this order: a class scnr has no match
/// function for (registered while the patterns are converted, rejected only at the very end of a
/// build) and, later, something that fails earlier in the pipeline (unsupported construct in the same
/// or a later pattern, syntax error in a later pattern) - a build that fails half way through.
pub const FAIL_KINDS: &[&str] = &["syntax", "unsupported", "bad_lookahead", "unknown_class_late", "class_then_error"];

/// Returns a configuration derived from `base` that must fail to build.
pub fn failing_variant(rng: &mut Rng, base: &Config, kind: &str) -> Option<Config> {
    let mut c = base.clone();
    let mi = rng.below(c.len());
    let bad = match kind {
        "syntax" => rng.pick(&["(", "a)", "[a", "a{2", "*a", "\\", "a{3,1}"]).to_string(),
        "unsupported" => rng.pick(&["\\bx", "a*?", "(?i)a", "^a", "a$", "a+?", "(?i:a)"]).to_string(),
        "unknown_class_late" => rng.pick(&["\\p{Foo}", "\\p{sc=Latin}", "x\\p{Bar}+", "[\\p{Foo}a]"]).to_string(),
        "bad_lookahead" => String::new(),
        "class_then_error" => String::new(),
        _ => return None,
    };
    if kind == "class_then_error" {
        let class = rng.pick(&["\\p{Greek}+", "x\\p{Bar}+", "[\\p{Foo}a]", "\\p{sc=Latin}"]).to_string();
        let late = rng.pick(&["b*?c", "a+?", "^a", "a$", "\\bx", "(?i)a", "(", "a{3,1}", "[a"]).to_string();
        let fresh = |c: &Config, mi: usize, rng: &mut Rng| {
            let mut t = rng.below(70);
            while c[mi].patterns.iter().any(|p| same_type(p.token_type, t)) {
                t = rng.below(70);
            }
            t
        };
        if rng.chance(1, 3) && !late.starts_with('(') && !late.starts_with('[') && !late.starts_with("a{") {
            // both in one pattern, the class first
            let t = fresh(&c, mi, rng);
            let at = rng.below(c[mi].patterns.len() + 1);
            c[mi].patterns.insert(at, PatternSpec { pattern: format!("{}{}", class, late), token_type: t, lookahead: None });
        } else {
            // the class in one pattern, the early failure in a later pattern of the same or a later mode
            let t = fresh(&c, mi, rng);
            let at = rng.below(c[mi].patterns.len() + 1);
            c[mi].patterns.insert(at, PatternSpec { pattern: class, token_type: t, lookahead: None });
            let mj = mi + rng.below(c.len() - mi);
            let t2 = fresh(&c, mj, rng);
            let lo = if mj == mi { at + 1 } else { 0 };
            let at2 = lo + rng.below(c[mj].patterns.len() + 1 - lo);
            c[mj].patterns.insert(at2, PatternSpec { pattern: late, token_type: t2, lookahead: None });
        }
        return Some(c);
    }
    if kind == "bad_lookahead" {
        if c[mi].patterns.is_empty() {
            return None;
        }
        let pi = rng.below(c[mi].patterns.len());
        c[mi].patterns[pi].lookahead = Some(LookaheadSpec {
            is_positive: rng.chance(1, 2),
            pattern: rng.pick(&["(", "\\bx", "a*?", "\\p{Foo}", "[z-a]"]).to_string(),
        });
        return Some(c);
    }
    let used: Vec<usize> = c[mi].patterns.iter().map(|p| p.token_type).collect();
    let mut t = rng.below(70);
    while used.iter().any(|x| same_type(*x, t)) {
        t = rng.below(70);
    }
    let p = PatternSpec { pattern: bad, token_type: t, lookahead: None };
    if c[mi].patterns.is_empty() || rng.chance(1, 2) {
        let at = rng.below(c[mi].patterns.len() + 1);
        c[mi].patterns.insert(at, p);
    } else {
        let at = rng.below(c[mi].patterns.len());
        c[mi].patterns[at].pattern = p.pattern;
    }
    Some(c)
}

// ---------------------------------------------------------------------------------------------
// Repository corpora
// ---------------------------------------------------------------------------------------------

pub struct Corpus {
    pub entries: Vec<(String, Config, String)>,
}

pub fn load_corpus() -> Corpus {
    let base = std::env::var("SCNR_REPO").unwrap_or_else(|_| "/repo/scnr".to_string());
    let mut entries = Vec::new();
    let list: &[(&str, &str)] = &[
        ("tests/data/string.json", "tests/data/string.input"),
        ("tests/data/parol.json", "tests/data/parol.input"),
        ("tests/data/positive_lookahead_p.json", "tests/data/positive_lookahead_p.input"),
        ("tests/data/positive_lookahead_n.json", "tests/data/positive_lookahead_n.input"),
        ("tests/data/negative_lookahead_p.json", "tests/data/negative_lookahead_p.input"),
        ("tests/data/negative_lookahead_n.json", "tests/data/negative_lookahead_n.input"),
        ("tests/data/nongreedy1.json", "tests/data/nongreedy1.input"),
        ("tests/data/nongreedy2.json", "tests/data/nongreedy2.input"),
        ("benches/veryl_modes.json", "benches/veryl_input.veryl"),
    ];
    for (j, i) in list {
        let jp = format!("{}/{}", base, j);
        let ip = format!("{}/{}", base, i);
        let (Ok(js), Ok(inp)) = (std::fs::read_to_string(&jp), std::fs::read_to_string(&ip)) else {
            continue;
        };
        let Ok(cfg) = serde_json::from_str::<Config>(&js) else {
            continue;
        };
        entries.push((j.to_string(), cfg, inp));
    }
    Corpus { entries }
}

/// A world whose single configuration is a repository corpus, with an input cut from its text.
pub fn corpus_world(rng: &mut Rng, corpus: &Corpus, max_len: usize, n_inputs: usize, heavy: bool) -> Option<World> {
    let cands: Vec<&(String, Config, String)> = corpus
        .entries
        .iter()
        .filter(|e| heavy || !e.0.contains("veryl"))
        .collect();
    if cands.is_empty() {
        return None;
    }
    let e = rng.pick(&cands);
    let b = boundaries(&e.2);
    let mut inputs = Vec::new();
    for _ in 0..n_inputs {
        let s = *rng.pick(&b);
        let rest = &e.2[s..];
        let n = rng.range(0, max_len);
        let cut: String = rest.chars().take(n).collect();
        inputs.push(cut);
    }
    Some(World { configs: vec![e.1.clone()], inputs, note: format!("corpus={}", e.0) })
}
