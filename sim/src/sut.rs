//! Thin helpers around the real scnr API: guarded calls (panic capture), builders, conversions.

use crate::spec::*;
use scnr::{
    FindMatches, Lookahead, Match, MatchExt, MatchExtIterator, Pattern, PeekResult, PositionProvider,
    Scanner, ScannerBuilder, ScannerMode, ScannerModeSwitcher, ScnrError, ScnrErrorKind, WithPositions,
};
use std::cell::RefCell;
use std::collections::{BTreeMap, BTreeSet};
use std::panic::{catch_unwind, AssertUnwindSafe};

thread_local! {
    static LAST_PANIC: RefCell<Option<String>> = const { RefCell::new(None) };
    static GUARD_DEPTH: std::cell::Cell<usize> = const { std::cell::Cell::new(0) };
    static STATS: RefCell<BTreeMap<&'static str, u64>> = const { RefCell::new(BTreeMap::new()) };
    static MARKS: RefCell<BTreeSet<&'static str>> = const { RefCell::new(BTreeSet::new()) };
}

/// Install a silent panic hook that records `file: message` of the last panic.
pub fn install_panic_hook() {
    std::panic::set_hook(Box::new(|info| {
        let loc = info
            .location()
            .map(|l| {
                let f = l.file();
                // keep the path relative to the crate so that signatures do not depend on where
                // the tree lives
                let f = f.rsplit_once("/src/").map(|x| x.1).unwrap_or(f);
                format!("{}:{}", f, l.line())
            })
            .unwrap_or_else(|| "?".to_string());
        let msg = if let Some(s) = info.payload().downcast_ref::<&str>() {
            s.to_string()
        } else if let Some(s) = info.payload().downcast_ref::<String>() {
            s.clone()
        } else {
            "<non-string panic>".to_string()
        };
        let first = msg.lines().find(|l| !l.trim().is_empty()).unwrap_or("").trim().to_string();
        // a panic outside `guarded` is a bug of the harness itself: never swallow it
        if GUARD_DEPTH.with(|d| d.get()) == 0 || std::env::var("SIMCHECK_PRINT_PANICS").is_ok() {
            eprintln!("[panic] {} {}", loc, first);
        }
        LAST_PANIC.with(|p| *p.borrow_mut() = Some(format!("{} {}", loc, first)));
    }));
}

/// Run `f`, converting a panic into `Err("file:line message")`.
pub fn guarded<T>(f: impl FnOnce() -> T) -> std::result::Result<T, String> {
    GUARD_DEPTH.with(|d| d.set(d.get() + 1));
    let r = catch_unwind(AssertUnwindSafe(f));
    GUARD_DEPTH.with(|d| d.set(d.get().saturating_sub(1)));
    match r {
        Ok(v) => Ok(v),
        Err(_) => Err(LAST_PANIC
            .with(|p| p.borrow_mut().take())
            .unwrap_or_else(|| "? <unknown panic>".to_string())),
    }
}

/// `file message-prefix` without the line number: the discriminator used in signatures.
pub fn panic_class(p: &str) -> String {
    let (loc, msg) = p.split_once(' ').unwrap_or((p, ""));
    let file = loc.rsplit_once(':').map(|x| x.0).unwrap_or(loc);
    // numbers in the message (indices, lengths) vary with the input: normalise them so that the
    // signature survives minimisation
    let mut m = String::new();
    let mut last_digit = false;
    for c in msg.chars() {
        if c.is_ascii_digit() {
            if !last_digit {
                m.push('N');
            }
            last_digit = true;
        } else {
            m.push(c);
            last_digit = false;
        }
    }
    let m: String = m.chars().take(32).collect();
    format!("{}:{}", file, m.replace(' ', "_"))
}

pub fn bump(name: &'static str) {
    STATS.with(|s| *s.borrow_mut().entry(name).or_insert(0) += 1);
}
pub fn bump_by(name: &'static str, n: u64) {
    STATS.with(|s| *s.borrow_mut().entry(name).or_insert(0) += n);
}
pub fn mark(name: &'static str) {
    MARKS.with(|s| {
        s.borrow_mut().insert(name);
    });
    bump(name);
}
pub fn take_marks() -> BTreeSet<&'static str> {
    MARKS.with(|s| std::mem::take(&mut *s.borrow_mut()))
}
pub fn take_stats() -> BTreeMap<&'static str, u64> {
    STATS.with(|s| std::mem::take(&mut *s.borrow_mut()))
}
pub fn stats_snapshot() -> BTreeMap<&'static str, u64> {
    STATS.with(|s| s.borrow().clone())
}
pub fn restore_stats(m: BTreeMap<&'static str, u64>) {
    STATS.with(|s| *s.borrow_mut() = m);
}

pub fn to_pattern(p: &PatternSpec) -> Pattern {
    let pat = Pattern::new(p.pattern.clone(), p.token_type);
    match &p.lookahead {
        Some(la) => pat.with_lookahead(Lookahead::new(la.is_positive, la.pattern.clone())),
        None => pat,
    }
}

pub fn to_modes(cfg: &Config) -> Vec<ScannerMode> {
    cfg.iter()
        .map(|m| {
            ScannerMode::new(
                &m.name,
                m.patterns.iter().map(to_pattern).collect::<Vec<_>>(),
                m.transitions.clone(),
            )
        })
        .collect()
}

pub fn err_kind(e: &ScnrError) -> String {
    match &*e.source {
        ScnrErrorKind::RegexSyntaxError(..) => "RegexSyntaxError".to_string(),
        ScnrErrorKind::IoError(_) => "IoError".to_string(),
        ScnrErrorKind::UnsupportedFeature(_) => "UnsupportedFeature".to_string(),
        ScnrErrorKind::EmptyToken => "EmptyToken".to_string(),
    }
}

/// Build a scanner. `Err(Ok(kind))` = build returned an error; `Err(Err(p))` = build panicked.
pub fn build(cfg: &Config, how: BuildHow) -> std::result::Result<Scanner, std::result::Result<String, String>> {
    let r = guarded(|| {
        match how {
            BuildHow::Cached => ScannerBuilder::new().add_scanner_modes(&to_modes(cfg)).build(),
            BuildHow::Uncached => ScannerBuilder::new().add_scanner_modes(&to_modes(cfg)).build_uncached(),
            BuildHow::TryFromVec => Scanner::try_from(to_modes(cfg)),
            BuildHow::AddPatterns => {
                let pats: Vec<String> = cfg[0].patterns.iter().map(|p| p.pattern.clone()).collect();
                ScannerBuilder::new().add_patterns(pats).build()
            }
        }
    });
    match r {
        Ok(Ok(s)) => Ok(s),
        Ok(Err(e)) => Err(Ok(err_kind(&e))),
        Err(p) => Err(Err(p)),
    }
}

pub fn tok(m: &Match) -> Tok {
    (m.token_type(), m.start(), m.end())
}
pub fn tok_ext(m: &MatchExt) -> (Tok, (usize, usize), (usize, usize)) {
    (
        (m.token_type(), m.start(), m.end()),
        (m.start_position().line, m.start_position().column),
        (m.end_position().line, m.end_position().column),
    )
}
pub fn shift(t: Tok, by: usize) -> Tok {
    (t.0, t.1 + by, t.2 + by)
}

pub fn peek_obs(p: PeekResult) -> (PeekKind, Vec<Tok>) {
    match p {
        PeekResult::Matches(v) => (PeekKind::Matches, v.iter().map(tok).collect()),
        PeekResult::MatchesReachedEnd(v) => (PeekKind::ReachedEnd, v.iter().map(tok).collect()),
        PeekResult::MatchesReachedModeSwitch((v, m)) => (PeekKind::ModeSwitch(m), v.iter().map(tok).collect()),
        PeekResult::NotFound => (PeekKind::NotFound, vec![]),
    }
}

/// An iterator slot: plain or wrapped with positions.
pub enum It<'h> {
    Plain(FindMatches<'h>),
    Pos(WithPositions<FindMatches<'h>>),
}

impl<'h> It<'h> {
    pub fn new(sc: &Scanner, input: &'h str, positions: bool, with_offset: Option<usize>) -> Self {
        let mut fi = sc.find_iter(input);
        if let Some(o) = with_offset {
            fi = fi.with_offset(o);
        }
        if positions {
            It::Pos(fi.with_positions())
        } else {
            It::Plain(fi)
        }
    }
    pub fn next_tok(&mut self) -> Option<Tok> {
        match self {
            It::Plain(f) => f.next().map(|m| tok(&m)),
            It::Pos(f) => f.next().map(|m| (m.token_type(), m.start(), m.end())),
        }
    }
    pub fn next_ext(&mut self) -> Option<(Tok, (usize, usize), (usize, usize))> {
        match self {
            It::Plain(_) => None,
            It::Pos(f) => f.next().map(|m| tok_ext(&m)),
        }
    }
    pub fn set_offset(&mut self, o: usize) {
        match self {
            It::Plain(f) => FindMatches::set_offset(f, o),
            It::Pos(f) => PositionProvider::set_offset(f, o),
        }
    }
    /// The consuming `with_offset` applied in place (`it = it.with_offset(o)`); the wrapper with
    /// positions has no such method and uses `set_offset`.
    pub fn with_offset_mid(&mut self, o: usize) {
        match self {
            It::Plain(f) => replace_with(f, |x| x.with_offset(o)),
            It::Pos(f) => PositionProvider::set_offset(f, o),
        }
    }
    pub fn set_mode(&mut self, m: usize) {
        match self {
            It::Plain(f) => f.set_mode(m),
            It::Pos(f) => f.set_mode(m),
        }
    }
    pub fn current_mode(&self) -> usize {
        match self {
            It::Plain(f) => f.current_mode(),
            It::Pos(f) => f.current_mode(),
        }
    }
    pub fn mode_name(&self, i: usize) -> Option<String> {
        match self {
            It::Plain(f) => f.mode_name(i).map(|s| s.to_string()),
            It::Pos(f) => f.mode_name(i).map(|s| s.to_string()),
        }
    }
    pub fn position(&self, o: usize) -> (usize, usize) {
        let p = match self {
            It::Plain(f) => f.position(o),
            It::Pos(f) => f.position(o),
        };
        (p.line, p.column)
    }
    pub fn plain(&mut self) -> Option<&mut FindMatches<'h>> {
        match self {
            It::Plain(f) => Some(f),
            It::Pos(_) => None,
        }
    }
}

/// `*slot = f(*slot)` for a type without a cheap placeholder. A panic inside `f` would leave the
/// slot logically moved-out, so it aborts the process instead (reported as a crash of the system
/// under test by the parent).
pub fn replace_with<T>(slot: &mut T, f: impl FnOnce(T) -> T) {
    struct AbortOnUnwind;
    impl Drop for AbortOnUnwind {
        fn drop(&mut self) {
            std::process::abort();
        }
    }
    unsafe {
        let guard = AbortOnUnwind;
        let old = std::ptr::read(slot);
        let new = f(old);
        std::ptr::write(slot, new);
        std::mem::forget(guard);
    }
}

/// Linear search of the *configuration's* transition list (the model's own lookup).
pub fn cfg_transition(cfg: &Config, mode: usize, token_type: usize) -> Option<usize> {
    cfg.get(mode)?
        .transitions
        .iter()
        .find(|(t, _)| *t as u32 == token_type as u32)
        .map(|(_, m)| *m)
}

pub fn is_boundary(s: &str, o: usize) -> bool {
    o <= s.len() && s.is_char_boundary(o)
}
