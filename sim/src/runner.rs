//! One run = one world + one operation history, a pure function of (seed, property, run index).
//! The worker (child process, single-threaded) executes a slice of the run indices; the parent
//! partitions, merges, minimises, writes replay and evidence files.

use crate::gen::{self, Corpus};
use crate::props::{Exec, Prop};
use crate::rng::Rng;
use crate::spec::*;
use crate::sut;
use serde::{Deserialize, Serialize};
use std::collections::{BTreeMap, BTreeSet};
use std::hash::{Hash, Hasher};
use std::sync::{Arc, Mutex};

pub struct Fnv(pub u64);
impl Default for Fnv {
    fn default() -> Self {
        Fnv(0xcbf29ce484222325)
    }
}
impl Hasher for Fnv {
    fn finish(&self) -> u64 {
        self.0
    }
    fn write(&mut self, bytes: &[u8]) {
        for b in bytes {
            self.0 ^= *b as u64;
            self.0 = self.0.wrapping_mul(0x100000001b3);
        }
    }
}
pub fn hash_of<T: Hash>(t: &T) -> u64 {
    let mut h = Fnv::default();
    t.hash(&mut h);
    h.finish()
}

pub struct RunResult {
    pub world: World,
    pub ops: Vec<Op>,
    pub violation: Option<Violation>,
    pub aborted: bool,
    /// hash over the complete event log (every op and every observation, in order)
    pub log_hash: u64,
    /// hash over (world, ops): identity of the case
    pub case_hash: u64,
    pub marks: BTreeSet<&'static str>,
}

/// Shared with the watchdog thread: what is being executed right now.
#[derive(Default)]
pub struct Current {
    /// progress counter: bumped at every run start and before every operation
    pub beat: u64,
    pub run: u64,
    pub world: Option<World>,
    pub ops: Vec<Op>,
}

pub fn run_one(prop: &dyn Prop, corpus: &Corpus, seed: u64, idx: u64, current: Option<&Arc<Mutex<Current>>>) -> RunResult {
    run_one_traced(prop, corpus, seed, idx, current, None)
}

fn trace_line(path: &str, truncate: bool, line: &str) {
    use std::io::Write;
    let f = std::fs::OpenOptions::new().create(true).write(true).append(!truncate).truncate(truncate).open(path);
    if let Ok(mut f) = f {
        let _ = f.write_all(line.as_bytes());
        let _ = f.write_all(b"\n");
    }
}

pub fn run_one_traced(prop: &dyn Prop, corpus: &Corpus, seed: u64, idx: u64, current: Option<&Arc<Mutex<Current>>>, trace: Option<&str>) -> RunResult {
    let mut rng = Rng::for_run(seed, prop.tag(), idx);
    if prop.uses_cache() {
        scnr::verif::clear_scanner_cache();
    }
    let _ = sut::take_marks();
    let world = prop.gen_world(&mut rng, corpus);
    if let Some(t) = trace {
        trace_line(t, true, &format!("RUN {}", idx));
        trace_line(t, false, &format!("WORLD {}", serde_json::to_string(&world).unwrap()));
    }
    if let Some(c) = current {
        let mut c = c.lock().unwrap();
        c.beat += 1;
        c.run = idx;
        c.world = Some(world.clone());
        c.ops.clear();
    }
    let mut ops: Vec<Op> = Vec::new();
    let mut violation = None;
    let mut aborted = false;
    let mut h = Fnv::default();
    {
        let mut gen = prop.new_gen(&world, &mut rng);
        let mut exec = prop.new_exec(&world);
        while let Some(op) = gen.next_op(&mut rng) {
            if let Some(c) = current {
                let mut c = c.lock().unwrap();
                c.beat += 1;
                c.ops.push(op.clone());
            }
            if let Some(t) = trace {
                trace_line(t, false, &format!("OP {}", serde_json::to_string(&op).unwrap()));
            }
            let out = exec.step(ops.len(), &op);
            op.hash(&mut h);
            out.obs.hash(&mut h);
            gen.observe(&op, &out.obs);
            ops.push(op);
            if out.violation.is_some() {
                violation = out.violation;
                break;
            }
            if out.abort {
                aborted = true;
                break;
            }
            if ops.len() >= 400 {
                break;
            }
        }
        if violation.is_none() && !aborted {
            violation = exec.finish(ops.len());
        }
    }
    if let Some(v) = &violation {
        v.signature.hash(&mut h);
        v.step.hash(&mut h);
    }
    let mut ch = Fnv::default();
    world.hash(&mut ch);
    ops.hash(&mut ch);
    RunResult { case_hash: ch.finish(), log_hash: h.finish(), world, ops, violation, aborted, marks: sut::take_marks() }
}

/// Execute a literal history (no PRNG). Returns the violation, if any.
pub fn replay(prop: &dyn Prop, world: &World, ops: &[Op]) -> Option<Violation> {
    if prop.uses_cache() {
        scnr::verif::clear_scanner_cache();
    }
    let saved = sut::stats_snapshot();
    let mut exec: Box<dyn Exec + '_> = prop.new_exec(world);
    let mut res = None;
    let mut aborted = false;
    for (i, op) in ops.iter().enumerate() {
        let out = exec.step(i, op);
        if out.violation.is_some() {
            res = out.violation;
            break;
        }
        if out.abort {
            aborted = true;
            break;
        }
    }
    if res.is_none() && !aborted {
        res = exec.finish(ops.len());
    }
    drop(exec);
    let _ = sut::take_marks();
    sut::restore_stats(saved);
    res
}

#[derive(Serialize, Deserialize, Clone, Debug)]
pub struct FoundViolation {
    pub run: u64,
    pub world: World,
    pub ops: Vec<Op>,
    pub violation: Violation,
}

#[derive(Serialize, Deserialize, Clone, Debug, Default)]
pub struct WorkerReport {
    pub runs: u64,
    pub steps: u64,
    pub aborted: u64,
    /// order-independent combination of (run index, log hash)
    pub combined_hash: u64,
    pub stats: BTreeMap<String, u64>,
    pub nontrivial: u64,
    pub violation: Option<FoundViolation>,
    pub known: BTreeMap<String, u64>,
    pub known_example: BTreeMap<String, FoundViolation>,
    pub samples: Vec<serde_json::Value>,
    pub hang: Option<FoundViolation>,
    pub truncated: bool,
    /// per-run log hashes (only when asked for, determinism self-test)
    pub run_hashes: Vec<(u64, u64)>,
}

pub struct WorkerArgs {
    pub seed: u64,
    pub from: u64,
    pub to: u64,
    pub offset: u64,
    pub stride: u64,
    pub out: String,
    pub known: Vec<String>,
    pub want_hashes: bool,
    pub hang_secs: u64,
    pub deadline_secs: u64,
    /// write-ahead trace (world and every operation BEFORE it is executed); used to locate a run
    /// that kills the worker process (abort, segfault)
    pub trace: Option<String>,
}

pub fn mix(idx: u64, h: u64) -> u64 {
    let mut x = idx.wrapping_mul(0x9E37_79B9_7F4A_7C15) ^ h;
    crate::rng::splitmix(&mut x)
}

pub fn worker(prop: &dyn Prop, a: &WorkerArgs) -> i32 {
    sut::install_panic_hook();
    let corpus = gen::load_corpus();
    let current = Arc::new(Mutex::new(Current::default()));
    // watchdog: a run that does not finish within hang_secs is a hang (bounded liveness)
    {
        let current = current.clone();
        let out = a.out.clone();
        let hang_secs = a.hang_secs;
        std::thread::spawn(move || {
            let mut last = current.lock().unwrap().beat;
            let mut since = std::time::Instant::now();
            loop {
                std::thread::sleep(std::time::Duration::from_millis(500));
                let b = current.lock().unwrap().beat;
                if b != last {
                    last = b;
                    since = std::time::Instant::now();
                } else if since.elapsed().as_secs() >= hang_secs {
                    let c = current.lock().unwrap();
                    let mut rep = WorkerReport::default();
                    rep.hang = Some(FoundViolation {
                        run: c.run,
                        world: c.world.clone().unwrap_or_default(),
                        ops: c.ops.clone(),
                        violation: Violation {
                            signature: "hang/no_progress".to_string(),
                            step: c.ops.len().saturating_sub(1),
                            expected: format!("operation returns within {} s", hang_secs),
                            observed: "still running".to_string(),
                        },
                    });
                    let _ = std::fs::write(&out, serde_json::to_string(&rep).unwrap());
                    std::process::exit(3);
                }
            }
        });
    }
    let start = std::time::Instant::now();
    let mut rep = WorkerReport::default();
    let mut stats: BTreeMap<&'static str, u64> = BTreeMap::new();
    let mut hashes: Vec<u64> = Vec::new();
    let mut idx = a.from + a.offset;
    while idx < a.to {
        if a.deadline_secs > 0 && start.elapsed().as_secs() >= a.deadline_secs {
            rep.truncated = true;
            break;
        }
        // every run gets a fresh thread, i.e. fresh thread-local state of the system under test: a
        // run must not depend on what earlier runs of this worker left behind, otherwise its replay
        // file (which holds this run only) would not reproduce it
        let (r, run_stats) = std::thread::scope(|s| {
            s.spawn(|| {
                let r = run_one_traced(prop, &corpus, a.seed, idx, Some(&current), a.trace.as_deref());
                (r, sut::take_stats())
            })
            .join()
            .unwrap_or_else(|_| {
                eprintln!("harness error: the run thread of run {} panicked", idx);
                std::process::exit(101)
            })
        });
        for (k, v) in run_stats {
            *stats.entry(k).or_insert(0) += v;
        }
        rep.runs += 1;
        rep.steps += r.ops.len() as u64;
        if r.aborted {
            rep.aborted += 1;
        }
        rep.combined_hash = rep.combined_hash.wrapping_add(mix(idx, r.log_hash));
        if a.want_hashes {
            rep.run_hashes.push((idx, r.log_hash));
        }
        if prop.nontrivial(&r.marks) {
            hashes.push(r.case_hash);
            if rep.samples.len() < 2 && r.violation.is_none() {
                rep.samples.push(serde_json::json!({"run": idx, "world": r.world, "history": r.ops}));
            }
        }
        if let Some(v) = r.violation {
            let fv = FoundViolation { run: idx, world: r.world, ops: r.ops, violation: v };
            if a.known.iter().any(|k| *k == fv.violation.signature) {
                *rep.known.entry(fv.violation.signature.clone()).or_insert(0) += 1;
                rep.known_example.entry(fv.violation.signature.clone()).or_insert(fv);
            } else {
                rep.violation = Some(fv);
                break;
            }
        }
        idx += a.stride;
    }
    hashes.sort_unstable();
    hashes.dedup();
    rep.nontrivial = hashes.len() as u64;
    let mut bytes = Vec::with_capacity(hashes.len() * 8);
    for h in &hashes {
        bytes.extend_from_slice(&h.to_le_bytes());
    }
    let _ = std::fs::write(format!("{}.hashes", a.out), bytes);
    for (k, v) in stats {
        rep.stats.insert(k.to_string(), v);
    }
    std::fs::write(&a.out, serde_json::to_string(&rep).unwrap()).expect("write worker report");
    0
}
