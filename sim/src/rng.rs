//! xoshiro256** seeded through splitmix64. The only source of choice in the simulator.

#[derive(Clone, Debug)]
pub struct Rng {
    s: [u64; 4],
}

pub fn splitmix(x: &mut u64) -> u64 {
    *x = x.wrapping_add(0x9E37_79B9_7F4A_7C15);
    let mut z = *x;
    z = (z ^ (z >> 30)).wrapping_mul(0xBF58_476D_1CE4_E5B9);
    z = (z ^ (z >> 27)).wrapping_mul(0x94D0_49BB_1331_11EB);
    z ^ (z >> 31)
}

impl Rng {
    pub fn new(seed: u64) -> Self {
        let mut x = seed;
        let s = [
            splitmix(&mut x),
            splitmix(&mut x),
            splitmix(&mut x),
            splitmix(&mut x),
        ];
        Rng { s }
    }

    /// Per-run generator: a pure function of (VERIF_SEED, property tag, run index).
    pub fn for_run(seed: u64, tag: u64, run: u64) -> Self {
        let mut x = seed ^ tag.wrapping_mul(0xD6E8_FEB8_6659_FD93);
        let a = splitmix(&mut x);
        let mut y = a ^ run.wrapping_mul(0xA076_1D64_78BD_642F);
        let b = splitmix(&mut y);
        Rng::new(b)
    }

    pub fn next_u64(&mut self) -> u64 {
        let r = self.s[1].wrapping_mul(5).rotate_left(7).wrapping_mul(9);
        let t = self.s[1] << 17;
        self.s[2] ^= self.s[0];
        self.s[3] ^= self.s[1];
        self.s[1] ^= self.s[2];
        self.s[0] ^= self.s[3];
        self.s[2] ^= t;
        self.s[3] = self.s[3].rotate_left(45);
        r
    }

    /// Uniform in 0..n (n > 0).
    pub fn below(&mut self, n: usize) -> usize {
        debug_assert!(n > 0);
        ((self.next_u64() >> 11) % (n as u64)) as usize
    }

    /// Uniform in lo..=hi.
    pub fn range(&mut self, lo: usize, hi: usize) -> usize {
        if hi <= lo {
            // still draw, so that the stream does not depend on the bounds
            let _ = self.next_u64();
            return lo;
        }
        lo + self.below(hi - lo + 1)
    }

    /// True with probability num/den.
    pub fn chance(&mut self, num: usize, den: usize) -> bool {
        self.below(den) < num
    }

    pub fn pick<'a, T>(&mut self, xs: &'a [T]) -> &'a T {
        &xs[self.below(xs.len())]
    }

    /// Pick an index according to integer weights.
    pub fn weighted(&mut self, weights: &[usize]) -> usize {
        let total: usize = weights.iter().sum();
        debug_assert!(total > 0);
        let mut r = self.below(total);
        for (i, w) in weights.iter().enumerate() {
            if r < *w {
                return i;
            }
            r -= *w;
        }
        weights.len() - 1
    }
}
