//! Bookkeeping shared by the per-property generators and executors.

use crate::gen;
use crate::rng::Rng;
use crate::spec::*;

/// What the generator knows about an iterator slot (learnt only from observations).
#[derive(Clone, Debug)]
pub struct ItModel {
    pub sc: usize,
    pub cfg: usize,
    pub input: usize,
    pub positions: bool,
    /// matches of the immediately preceding peek on this slot (cleared by any other op)
    pub last_peek: Option<(PeekKind, Vec<Tok>)>,
    pub cursor: usize,
    pub hwm: usize,
    pub exhausted: bool,
    pub nexts: usize,
    pub last_reset: Option<usize>,
}

pub struct GenModel<'w> {
    pub world: &'w World,
    pub scanners: Vec<Option<usize>>,
    pub iters: Vec<Option<ItModel>>,
    pub steps: usize,
}

impl<'w> GenModel<'w> {
    pub fn new(world: &'w World, n_sc: usize, n_it: usize) -> Self {
        GenModel { world, scanners: vec![None; n_sc], iters: vec![None; n_it], steps: 0 }
    }

    pub fn live_scanners(&self) -> Vec<usize> {
        (0..self.scanners.len()).filter(|i| self.scanners[*i].is_some()).collect()
    }
    pub fn live_iters(&self) -> Vec<usize> {
        (0..self.iters.len()).filter(|i| self.iters[*i].is_some()).collect()
    }
    pub fn free_iters(&self) -> Vec<usize> {
        (0..self.iters.len()).filter(|i| self.iters[*i].is_none()).collect()
    }
    pub fn n_modes(&self, it: usize) -> usize {
        self.iters[it].as_ref().map(|m| self.world.configs[m.cfg].len()).unwrap_or(1)
    }
    pub fn input_of(&self, it: usize) -> &'w str {
        &self.world.inputs[self.iters[it].as_ref().unwrap().input]
    }

    pub fn observe(&mut self, op: &Op, obs: &Obs) {
        self.steps += 1;
        if matches!(obs, Obs::Skipped) {
            return;
        }
        if let Some(it) = op.iter_slot() {
            if !matches!(op, Op::PeekN { .. } | Op::NewIter { .. }) {
                if let Some(Some(m)) = self.iters.get_mut(it) {
                    m.last_peek = None;
                }
            }
        }
        let panicked = matches!(obs, Obs::Panic(_));
        match op {
            Op::Build { sc, cfg, .. } => {
                self.scanners[*sc] = if matches!(obs, Obs::Built(Ok(()))) { Some(*cfg) } else { None };
            }
            Op::DropScanner { sc } => self.scanners[*sc] = None,
            Op::NewIter { it, sc, input, positions, with_offset } => {
                if panicked {
                    self.iters[*it] = None;
                    return;
                }
                let len = self.world.inputs[*input].len();
                let c = with_offset.map(|o| o.min(len)).unwrap_or(0);
                self.iters[*it] = Some(ItModel {
                    sc: *sc,
                    cfg: self.scanners[*sc].unwrap_or(0),
                    input: *input,
                    positions: *positions,
                    last_peek: None,
                    cursor: c,
                    hwm: 0,
                    exhausted: false,
                    nexts: 0,
                    last_reset: None,
                });
            }
            Op::DropIter { it } => self.iters[*it] = None,
            _ => {
                let Some(it) = op.iter_slot() else { return };
                if panicked {
                    // executors drop an iterator that panicked
                    self.iters[it] = None;
                    return;
                }
                let len = self.iters[it].as_ref().map(|m| self.world.inputs[m.input].len()).unwrap_or(0);
                let Some(m) = self.iters[it].as_mut() else { return };
                match (op, obs) {
                    (Op::Next { .. }, Obs::Tok(t)) => {
                        m.nexts += 1;
                        match t {
                            Some(t) => {
                                m.cursor = t.2;
                                m.hwm = m.hwm.max(t.2);
                            }
                            None => {
                                m.cursor = len;
                                m.hwm = len;
                                m.exhausted = true;
                            }
                        }
                    }
                    (Op::Next { .. }, Obs::TokPos(t)) => {
                        m.nexts += 1;
                        match t {
                            Some((t, _, _)) => {
                                m.cursor = t.2;
                                m.hwm = m.hwm.max(t.2);
                            }
                            None => {
                                m.cursor = len;
                                m.hwm = len;
                                m.exhausted = true;
                            }
                        }
                    }
                    (Op::Drain { .. }, _) => {
                        m.cursor = len;
                        m.hwm = len;
                        m.exhausted = true;
                    }
                    (Op::PeekN { .. }, Obs::Peek(k, v)) => m.last_peek = Some((k.clone(), v.clone())),
                    (Op::AdvanceToPeeked { .. }, Obs::Num(_)) => {}
                    (Op::SetOffset { offset, .. }, _) | (Op::WithOffsetMid { offset, .. }, _) => {
                        m.cursor = (*offset).min(len);
                        m.exhausted = false;
                        m.last_reset = Some(*offset);
                    }
                    _ => {}
                }
            }
        }
    }

    /// A random character boundary of the iterator's input, biased towards interesting places.
    pub fn pick_boundary(&self, rng: &mut Rng, it: usize, max: Option<usize>) -> usize {
        let s = self.input_of(it);
        let mut b = gen::boundaries(s);
        if let Some(mx) = max {
            b.retain(|x| *x <= mx);
        }
        if b.is_empty() {
            return 0;
        }
        let m = self.iters[it].as_ref().unwrap();
        match rng.below(10) {
            0 => 0,
            1 => *b.last().unwrap(),
            2 => {
                // right after a newline, if any
                let nl: Vec<usize> = b.iter().copied().filter(|x| *x > 0 && s.as_bytes()[*x - 1] == b'\n').collect();
                if nl.is_empty() { *rng.pick(&b) } else { *rng.pick(&nl) }
            }
            3 => {
                // the current cursor
                if b.contains(&m.cursor) { m.cursor } else { *rng.pick(&b) }
            }
            4 => {
                // the same offset as the previous reset (two resets to one place in a row)
                match m.last_reset {
                    Some(o) if b.contains(&o) => o,
                    _ => *rng.pick(&b),
                }
            }
            _ => *rng.pick(&b),
        }
    }
}

pub fn grow<T: Default>(v: &mut Vec<T>, idx: usize) {
    while v.len() <= idx {
        v.push(T::default());
    }
}

/// Peek depth: mostly small, sometimes far beyond the number of tokens ahead / beyond any
/// plausible internal buffer size.
pub fn gen_peek_n(rng: &mut Rng) -> usize {
    if rng.chance(1, 12) {
        if rng.chance(1, 4) { rng.range(41, 130) } else { rng.range(6, 40) }
    } else {
        rng.below(6)
    }
}

/// History length: mostly `lo..=hi`, one run in twenty is long.
pub fn gen_history_len(rng: &mut Rng, lo: usize, hi: usize) -> usize {
    if rng.chance(1, 20) {
        rng.range(100, 160)
    } else {
        rng.range(lo, hi)
    }
}

/// Input length bounds: one world in fifteen has long inputs (several hundred bytes, long tokens,
/// many line breaks, offsets beyond 255).
pub fn gen_input_len(rng: &mut Rng, hi: usize) -> (usize, usize) {
    if rng.chance(1, 15) {
        // one long world in five is very long (tokens and jumps beyond 1 KiB)
        if rng.chance(1, 5) { (0, 1500) } else { (0, 300) }
    } else {
        (0, hi)
    }
}

/// A reset operation: mostly `set_offset`, sometimes the consuming `with_offset` in place.
pub fn gen_reset(rng: &mut Rng, it: usize, offset: usize) -> Op {
    if rng.chance(1, 4) {
        Op::WithOffsetMid { it, offset }
    } else {
        Op::SetOffset { it, offset }
    }
}
