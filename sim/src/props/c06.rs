//! C06 — scanner modes switch exactly on configured token types.
//! Oracle: a mode-graph model (linear search over the configuration's transition list) plus a
//! fresh iterator of the same Scanner forced into the model's mode.

use super::common::*;
use super::*;
use crate::gen::{self, Knobs};
use crate::sut::{self, bump, guarded, mark};
use scnr::{FindMatches, Scanner, ScannerModeSwitcher};
use std::cell::RefCell;
use std::rc::Rc;

pub struct C06;

impl Prop for C06 {
    fn id(&self) -> &'static str {
        "C06"
    }
    fn gen_world(&self, rng: &mut Rng, corpus: &Corpus) -> World {
        if rng.chance(1, 300) {
            let heavy = rng.chance(1, 4);
            if let Some(w) = gen::corpus_world(rng, corpus, 120, 2, heavy) {
                mark("probe.corpus_world");
                return w;
            }
        }
        let k = Knobs {
            configs: (1, 1),
            modes: (1, 4),
            patterns: (1, 4),
            lookahead_pct: *rng.pick(&[0, 0, 0, 15]),
            disjoint_types: rng.chance(1, 2),
            max_transitions: 4,
            inputs: (1, 2),
            input_len: gen_input_len(rng, 40),
            allow_empty_mode: true,
            ..Knobs::default()
        };
        let mut gw = gen::gen_world(rng, &k);
        if gw.world.configs[0].len() < 4 && rng.chance(1, 5) {
            // a mode that differs from another one ONLY in its lookaheads (same regexes, same token
            // types, same order): compiled state must not be shared between them
            let src = rng.below(gw.world.configs[0].len());
            let mut m = gw.world.configs[0][src].clone();
            m.name = format!("LA{}", gw.world.configs[0].len());
            for p in m.patterns.iter_mut() {
                match (&p.lookahead, rng.below(3)) {
                    (None, 0) | (None, 1) => {
                        p.lookahead = Some(LookaheadSpec { is_positive: rng.chance(1, 2), pattern: gen::gen_lookahead_rx(rng, &gw.alphabet).render() })
                    }
                    (Some(la), 0) => p.lookahead = Some(LookaheadSpec { is_positive: !la.is_positive, pattern: la.pattern.clone() }),
                    (Some(_), 1) => p.lookahead = None,
                    _ => {}
                }
            }
            let n = gw.world.configs[0].len();
            // make it reachable: a transition from the source mode on one of its token types
            if let Some(t) = m.patterns.first().map(|p| p.token_type) {
                let tr = &mut gw.world.configs[0][src].transitions;
                if !tr.iter().any(|x| gen::same_type(x.0, t)) {
                    tr.push((t, n));
                    tr.sort_by_key(|x| (x.0 as u32, x.1));
                }
            }
            gw.world.configs[0].push(m);
            mark("probe.mode_differing_only_in_lookaheads");
            // lookaheads make scanning quadratic to cubic in the length of a run (section 12, item
            // 17): keep the inputs of such worlds short, like gen_world does for its own lookaheads
            for inp in gw.world.inputs.iter_mut() {
                if inp.chars().count() > 300 {
                    *inp = inp.chars().take(300).collect();
                }
            }
        }
        if gw.world.configs[0].len() == 1 && rng.chance(1, 2) {
            // single-mode worlds are less interesting here: duplicate the mode with a twist
            let mut m = gw.world.configs[0][0].clone();
            m.name = "M1".into();
            m.patterns.reverse();
            gw.world.configs[0].push(m);
        }
        gw.world
    }
    fn new_gen<'w>(&self, world: &'w World, rng: &mut Rng) -> Box<dyn Gen + 'w> {
        Box::new(Gen06 { m: GenModel::new(world, 1, 2), len: gen_history_len(rng, 8, 70) })
    }
    fn new_exec<'w>(&self, world: &'w World) -> Box<dyn Exec + 'w> {
        Box::new(Exec06 { world, scanners: vec![], iters: vec![] })
    }
    fn nontrivial(&self, marks: &BTreeSet<&'static str>) -> bool {
        marks.contains("probe.switch_executed") && marks.contains("probe.set_mode_midstream_then_token")
    }
    fn rule(&self) -> &'static str {
        "one case = (world with a mode graph, history of next/peek_n/set_mode on iterator and Scanner/mode queries) from (seed, run index); distinct = distinct hash of literal world+history; non-trivial = at least one executed mode switch AND at least one mid-stream set_mode followed by a token"
    }
    fn runs(&self) -> (u64, u64) {
        (120_000, 4_000_000)
    }
    fn expected_probes(&self) -> &'static [&'static str] {
        &[
            "probe.switch_executed", "probe.self_loop_taken", "probe.early_exit_branch", "probe.transition_on_shared_type",
            "probe.set_mode_midstream_then_token", "probe.new_iter_after_scanner_set_mode", "probe.token_without_transition",
            "probe.peek_in_switching_position", "probe.skipped_chars_then_token", "probe.transition_list_len_ge3", "probe.single_mode_reference_comparisons", "probe.mode_differing_only_in_lookaheads",
            "fault.mode_override",
        ]
    }
}

struct Gen06<'w> {
    m: GenModel<'w>,
    len: usize,
}

impl<'w> Gen for Gen06<'w> {
    fn next_op(&mut self, rng: &mut Rng) -> Option<Op> {
        if self.m.steps >= self.len {
            return None;
        }
        let w = self.m.world;
        if self.m.live_scanners().is_empty() {
            if self.m.steps > 2 {
                return None;
            }
            let how = if rng.chance(1, 3) { BuildHow::Cached } else { BuildHow::Uncached };
            return Some(Op::Build { sc: 0, cfg: 0, how });
        }
        let n_modes = w.configs[0].len();
        let its = self.m.live_iters();
        let free = self.m.free_iters();
        if its.is_empty() || (!free.is_empty() && rng.chance(1, 12)) {
            if rng.chance(1, 3) {
                return Some(Op::SetModeScanner { sc: 0, mode: rng.below(n_modes) });
            }
            let it = if free.is_empty() { rng.below(self.m.iters.len()) } else { *rng.pick(&free) };
            return Some(Op::NewIter { it, sc: 0, input: rng.below(w.inputs.len()), positions: false, with_offset: None });
        }
        let it = *rng.pick(&its);
        Some(match rng.weighted(&[50, 10, 10, 5, 5, 2]) {
            0 => Op::Next { it },
            1 => Op::PeekN { it, n: rng.range(1, 4) },
            2 => Op::SetModeIter { it, mode: rng.below(n_modes) },
            3 => Op::SetModeScanner { sc: 0, mode: rng.below(n_modes) },
            4 => Op::ModeQuery { it },
            _ => Op::DropIter { it },
        })
    }
    fn observe(&mut self, op: &Op, obs: &Obs) {
        self.m.observe(op, obs)
    }
}

struct St<'w> {
    /// per mode, a scanner compiled from that mode alone (lazily, uncached): the independent
    /// reference for "the patterns of the current mode"
    solo: Rc<RefCell<Vec<Option<Option<Rc<Scanner>>>>>>,
    sc: Rc<RefCell<Scanner>>,
    cfg: usize,
    input: &'w str,
    sut: FindMatches<'w>,
    model_mode: usize,
    cursor: usize,
    forced: bool,
}

struct Exec06<'w> {
    world: &'w World,
    scanners: Vec<Option<(Rc<RefCell<Scanner>>, usize, bool, Rc<RefCell<Vec<Option<Option<Rc<Scanner>>>>>>)>>,
    iters: Vec<Option<St<'w>>>,
}

fn check_mode_view(st: &St<'_>, cfg: &Config, idx: usize) -> Option<Violation> {
    let got = st.sut.current_mode();
    if got != st.model_mode {
        return Some(viol("C06/current_mode".into(), idx, st.model_mode, got));
    }
    for i in 0..cfg.len() + 2 {
        let exp = cfg.get(i).map(|m| m.name.clone());
        let got = st.sut.mode_name(i).map(|s| s.to_string());
        if exp != got {
            return Some(viol("C06/mode_name".into(), idx, (i, exp), got));
        }
    }
    None
}

impl<'w> Exec for Exec06<'w> {
    fn step(&mut self, idx: usize, op: &Op) -> StepOut {
        let world = self.world;
        match op {
            Op::Build { sc, cfg, how } => {
                let Some(c) = world.configs.get(*cfg) else { return StepOut::skipped() };
                if *how == BuildHow::AddPatterns {
                    return StepOut::skipped();
                }
                grow(&mut self.scanners, *sc);
                match sut::build(c, *how) {
                    Ok(s) => {
                        self.scanners[*sc] = Some((Rc::new(RefCell::new(s)), *cfg, false, Rc::new(RefCell::new(vec![None; c.len()]))));
                        StepOut::ok(Obs::Built(Ok(())))
                    }
                    Err(Ok(k)) => {
                        self.scanners[*sc] = None;
                        StepOut::ok(Obs::Built(Err(k)))
                    }
                    Err(Err(p)) => {
                        self.scanners[*sc] = None;
                        bump("abort.build_panic");
                        StepOut::abort(Obs::Panic(p))
                    }
                }
            }
            Op::SetModeScanner { sc, mode } => {
                let Some(Some((s, cfg, touched, _))) = self.scanners.get_mut(*sc) else { return StepOut::skipped() };
                let c = &world.configs[*cfg];
                if *mode >= c.len() {
                    return StepOut::skipped();
                }
                bump("fault.mode_override");
                s.borrow_mut().set_mode(*mode);
                *touched = true;
                let got = s.borrow().current_mode();
                if got != *mode {
                    return StepOut::fail(Obs::Num(got), viol("C06/scanner_current_mode".into(), idx, mode, got));
                }
                // no live iterator is affected
                let s = s.clone();
                for st in self.iters.iter().flatten() {
                    if Rc::ptr_eq(&st.sc, &s) {
                        if let Some(v) = check_mode_view(st, c, idx) {
                            return StepOut::fail(Obs::Num(got), Violation { signature: format!("{}/after_scanner_set_mode", v.signature), ..v });
                        }
                    }
                }
                StepOut::ok(Obs::Num(got))
            }
            Op::NewIter { it, sc, input, .. } => {
                let Some(Some((s, cfg, touched, solo))) = self.scanners.get(*sc) else { return StepOut::skipped() };
                let Some(inp) = world.inputs.get(*input) else { return StepOut::skipped() };
                let inp: &'w str = inp.as_str();
                grow(&mut self.iters, *it);
                if *touched && s.borrow().current_mode() != 0 {
                    mark("probe.new_iter_after_scanner_set_mode");
                }
                let f = s.borrow().find_iter(inp);
                let st = St { solo: solo.clone(), sc: s.clone(), cfg: *cfg, input: inp, sut: f, model_mode: 0, cursor: 0, forced: false };
                let v = check_mode_view(&st, &world.configs[*cfg], idx).map(|v| Violation { signature: format!("{}/new_iter", v.signature), ..v });
                self.iters[*it] = Some(st);
                StepOut { obs: Obs::Unit, violation: v, abort: false }
            }
            Op::DropIter { it } => {
                if let Some(s) = self.iters.get_mut(*it) {
                    *s = None;
                }
                StepOut::ok(Obs::Unit)
            }
            _ => {
                let Some(slot) = op.iter_slot() else { return StepOut::skipped() };
                let Some(Some(st)) = self.iters.get_mut(slot) else { return StepOut::skipped() };
                let cfg = &world.configs[st.cfg];
                let out = match op {
                    Op::Next { .. } => {
                        let mode = st.model_mode;
                        // (d) what a fresh iterator of the same Scanner yields in the model's mode
                        let sc = st.sc.clone();
                        let (input, cursor) = (st.input, st.cursor);
                        let exp = guarded(|| {
                            let mut f = sc.borrow().find_iter(&input[cursor..]);
                            f.set_mode(mode);
                            f.next().map(|m| sut::shift(sut::tok(&m), cursor))
                        });
                        let got = guarded(|| st.sut.next().map(|m| sut::tok(&m)));
                        match (got, exp) {
                            (Err(p), Err(_)) => {
                                bump("abort.symmetric_panic");
                                StepOut::abort(Obs::Panic(p))
                            }
                            (Err(p), Ok(e)) => StepOut::fail(Obs::Panic(p.clone()), viol("C06/token/panic_only_with_history".into(), idx, e, p)),
                            (Ok(g), Err(p)) => StepOut::fail(Obs::Tok(g), viol("C06/token/panic_only_fresh".into(), idx, p, g)),
                            (Ok(g), Ok(e)) => {
                                let mut v = None;
                                if let Some(t) = g {
                                    // (c) the type belongs to the configured patterns of the model's mode
                                    if !cfg[mode].patterns.iter().any(|p| gen::same_type(p.token_type, t.0)) {
                                        v = Some(viol("C06/token/type_not_in_current_mode".into(), idx, format!("a token type of mode {} ({:?})", mode, cfg[mode].patterns.iter().map(|p| p.token_type).collect::<Vec<_>>()), t));
                                    }
                                }
                                if v.is_none() && g != e {
                                    v = Some(viol("C06/token/differs_from_fresh_scan_in_model_mode".into(), idx, e, g));
                                }
                                if v.is_none() {
                                    // (f) the same token as a scanner compiled from the model's mode ALONE
                                    let solo_sc = {
                                        let mut solo = st.solo.borrow_mut();
                                        if solo[mode].is_none() {
                                            let one = vec![ModeSpec { name: cfg[mode].name.clone(), patterns: cfg[mode].patterns.clone(), transitions: vec![] }];
                                            solo[mode] = Some(sut::build(&one, BuildHow::Uncached).ok().map(Rc::new));
                                        }
                                        solo[mode].clone().unwrap()
                                    };
                                    if let Some(ssc) = solo_sc {
                                        let es = guarded(|| ssc.find_iter(&input[cursor..]).next().map(|m| sut::shift(sut::tok(&m), cursor)));
                                        if let Ok(es) = es {
                                            bump("probe.single_mode_reference_comparisons");
                                            if es != g {
                                                v = Some(viol("C06/token/differs_from_scanner_of_the_current_mode_alone".into(), idx, es, g));
                                            }
                                        }
                                    }
                                }
                                if v.is_none() {
                                    if let Some(t) = g {
                                        if t.1 > st.cursor {
                                            mark("probe.skipped_chars_then_token");
                                        }
                                        if st.forced {
                                            mark("probe.set_mode_midstream_then_token");
                                            st.forced = false;
                                        }
                                        if cfg[mode].transitions.len() >= 3 {
                                            mark("probe.transition_list_len_ge3");
                                        }
                                        match sut::cfg_transition(cfg, mode, t.0) {
                                            Some(target) => {
                                                mark("probe.switch_executed");
                                                if target == mode {
                                                    mark("probe.self_loop_taken");
                                                }
                                                if cfg[target].patterns.iter().any(|p| gen::same_type(p.token_type, t.0)) {
                                                    mark("probe.transition_on_shared_type");
                                                }
                                                st.model_mode = target;
                                            }
                                            None => {
                                                mark("probe.token_without_transition");
                                                if cfg[mode].transitions.iter().any(|(tt, _)| (*tt as u32) > (t.0 as u32)) {
                                                    mark("probe.early_exit_branch");
                                                }
                                            }
                                        }
                                        st.cursor = t.2;
                                    } else {
                                        st.cursor = st.input.len();
                                    }
                                    v = check_mode_view(st, cfg, idx).map(|v| Violation { signature: format!("{}/after_next", v.signature), ..v });
                                }
                                StepOut { obs: Obs::Tok(g), violation: v, abort: false }
                            }
                        }
                    }
                    Op::PeekN { n, .. } => match guarded(|| sut::peek_obs(st.sut.peek_n(*n))) {
                        Ok((k, v)) => {
                            if matches!(k, PeekKind::ModeSwitch(_)) {
                                mark("probe.peek_in_switching_position");
                            }
                            let viol_ = check_mode_view(st, cfg, idx).map(|v| Violation { signature: format!("{}/after_peek", v.signature), ..v });
                            StepOut { obs: Obs::Peek(k, v), violation: viol_, abort: false }
                        }
                        Err(p) => {
                            bump("abort.peek_panic");
                            StepOut::abort(Obs::Panic(p))
                        }
                    },
                    Op::SetModeIter { mode, .. } => {
                        if *mode >= cfg.len() {
                            return StepOut::skipped();
                        }
                        bump("fault.mode_override");
                        st.sut.set_mode(*mode);
                        st.model_mode = *mode;
                        if st.cursor > 0 {
                            st.forced = true;
                        }
                        let v = check_mode_view(st, cfg, idx).map(|v| Violation { signature: format!("{}/after_set_mode", v.signature), ..v });
                        StepOut { obs: Obs::Unit, violation: v, abort: false }
                    }
                    Op::ModeQuery { .. } => {
                        let v = check_mode_view(st, cfg, idx).map(|v| Violation { signature: format!("{}/query", v.signature), ..v });
                        StepOut { obs: Obs::Num(st.sut.current_mode()), violation: v, abort: false }
                    }
                    _ => return StepOut::skipped(),
                };
                if matches!(out.obs, Obs::Panic(_)) {
                    self.iters[slot] = None;
                }
                out
            }
        }
    }
}
