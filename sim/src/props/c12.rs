//! C12 — scanners and iterators are isolated from each other and from their past.
//! 2–4 clients interleave operations on several iterators over shared / cached / unrelated
//! scanners under a seeded scheduler. Oracle: solo replay — each iterator's own operation
//! subsequence, executed alone on a fresh handle obtained by the same build path, must produce
//! the identical result sequence.

use super::common::*;
use super::*;
use crate::gen::{self, Knobs};
use crate::sut::{self, bump, bump_by, guarded, mark, It};
use scnr::{Scanner, ScannerModeSwitcher};

pub struct C12;

impl Prop for C12 {
    fn id(&self) -> &'static str {
        "C12"
    }
    fn gen_world(&self, rng: &mut Rng, corpus: &Corpus) -> World {
        if rng.chance(1, 300) {
            let heavy = rng.chance(1, 5);
            if let Some(w) = gen::corpus_world(rng, corpus, 80, 3, heavy) {
                mark("probe.corpus_world");
                return w;
            }
        }
        let k = Knobs {
            configs: (1, 2),
            modes: (1, 4),
            max_transitions: 4,
            patterns: (1, 4),
            lookahead_pct: gen::draw_lookahead_pct(rng),
            inputs: (1, 3),
            input_len: gen_input_len(rng, 30),
            allow_empty_mode: true,
            ..Knobs::default()
        };
        let mut gw = gen::gen_world(rng, &k);
        if rng.chance(1, 150) {
            // a giant input that is mostly line breaks, scanned to the end and dropped first
            let n = rng.range(1100, 1400);
            let giant: String = (0..n).map(|i| if i % 19 == 3 { 'a' } else if i % 31 == 5 { '#' } else { '\n' }).collect();
            gw.world.configs[0][0].patterns.push(PatternSpec { pattern: "a|\\n".into(), token_type: 4243, lookahead: None });
            gw.world.inputs.insert(0, giant);
            gw.world.note = "giant".into();
            mark("probe.giant_newline_input");
            return gw.world;
        }
        if gw.world.configs.len() == 2 && rng.chance(1, 2) {
            // the second configuration is a near-variant of the first (shares modes / patterns with
            // it), so that anything keyed too coarsely in the process-wide cache is shared
            let kind = *rng.pick(&["pattern_char", "pattern_char", "token_type", "swap_patterns", "la_flip", "tr_retarget", "rename_mode"]);
            if let Some(v) = gen::near_variant(rng, &gw.world.configs[0].clone(), kind, &gw.alphabet) {
                gw.world.configs[1] = v;
                mark("probe.near_variant_scanners");
            }
        }
        if rng.chance(1, 2) {
            // a sibling input of exactly the same byte length but different text (rotated): a parser
            // that reuses its line buffer hands the scanner the same address and length again
            let src = rng.pick(&gw.world.inputs).clone();
            let cs: Vec<char> = src.chars().collect();
            if cs.len() >= 2 {
                let r = rng.range(1, cs.len() - 1);
                let rotated: String = cs[r..].iter().chain(cs[..r].iter()).collect();
                if rotated != src {
                    gw.world.inputs.push(rotated);
                    mark("probe.same_length_sibling_input");
                }
            }
        }
        gw.world
    }
    fn new_gen<'w>(&self, world: &'w World, rng: &mut Rng) -> Box<dyn Gen + 'w> {
        let clients = rng.range(2, 4);
        let policy = rng.below(4);
        let len = gen_history_len(rng, 12, 80);
        let mut prio: Vec<usize> = (0..clients).collect();
        for i in (1..prio.len()).rev() {
            let j = rng.below(i + 1);
            prio.swap(i, j);
        }
        let d = rng.range(1, 4);
        let change_points: Vec<usize> = (0..d).map(|_| rng.below(len)).collect();
        Box::new(Gen12 {
            m: GenModel::new(world, 3, clients * 2),
            len,
            clients,
            policy,
            current: 0,
            prio,
            change_points,
            sharing: rng.below(4),
            setup: 0,
            last_dropped_input: None,
            prelude: if world.note == "giant" {
                vec![
                    Op::DropIter { it: 0 },
                    Op::Drain { it: 0, extra: 0 },
                    Op::NewIter { it: 0, sc: 0, input: 0, positions: true, with_offset: None },
                ]
            } else {
                vec![]
            },
        })
    }
    fn new_exec<'w>(&self, world: &'w World) -> Box<dyn Exec + 'w> {
        Box::new(Exec12 { world, scanners: vec![], iters: vec![], insts: vec![], last_inst: None, switches: 0, peek_free: std::sync::atomic::AtomicU64::new(0) })
    }
    fn nontrivial(&self, marks: &BTreeSet<&'static str>) -> bool {
        marks.contains("probe.two_live_iters_two_ctx_switches")
    }
    fn rule(&self) -> &'static str {
        "one case = (world, interleaved history of 2-4 clients over up to 8 iterators and 3 scanner handles) from (seed, run index); distinct = distinct hash of literal world+history (hence of the context-switch pattern and op-kind sequence); non-trivial = at least two live iterators with at least two context switches between them"
    }
    fn runs(&self) -> (u64, u64) {
        (80_000, 3_000_000)
    }
    fn expected_probes(&self) -> &'static [&'static str] {
        &[
            "probe.two_live_iters_two_ctx_switches", "probe.neighbour_midstream_in_other_mode", "probe.shared_scanner",
            "probe.two_handles_one_cached_compilation", "probe.unrelated_scanners", "probe.scanner_reused_for_second_input",
            "probe.scanner_rebuilt_while_iterators_live", "probe.near_variant_scanners", "probe.same_length_sibling_input", "probe.positions_wrapped_iterator", "probe.giant_newline_input", "probe.scanner_dropped_while_iterators_live", "probe.solo_replays", "probe.peek_free_replays",
            "probe.policy_uniform", "probe.policy_bursty", "probe.policy_pct", "probe.policy_round_robin",
            "fault.abandon", "fault.mode_override",
        ]
    }
}

struct Gen12<'w> {
    m: GenModel<'w>,
    len: usize,
    clients: usize,
    policy: usize,
    current: usize,
    prio: Vec<usize>,
    change_points: Vec<usize>,
    sharing: usize,
    setup: usize,
    prelude: Vec<Op>,
    /// input of the iterator dropped most recently (to hand its recycled buffer another text
    /// of the same length)
    last_dropped_input: Option<usize>,
}

impl<'w> Gen12<'w> {
    fn schedule(&mut self, rng: &mut Rng) -> usize {
        match self.policy {
            0 => {
                mark("probe.policy_uniform");
                rng.below(self.clients)
            }
            1 => {
                mark("probe.policy_bursty");
                if !rng.chance(4, 5) {
                    self.current = rng.below(self.clients);
                }
                self.current
            }
            2 => {
                mark("probe.policy_pct");
                if self.change_points.contains(&self.m.steps) {
                    let top = self.prio.remove(0);
                    self.prio.push(top);
                }
                // PCT runs the highest-priority client; a client that has nothing to do (no
                // scanner yet) is handled by the caller
                if rng.chance(1, 6) {
                    // a little noise so that lower priorities get started at all
                    self.prio[rng.below(self.clients)]
                } else {
                    self.prio[0]
                }
            }
            _ => {
                mark("probe.policy_round_robin");
                self.current = (self.current + 1) % self.clients;
                self.current
            }
        }
    }
}

impl<'w> Gen for Gen12<'w> {
    fn next_op(&mut self, rng: &mut Rng) -> Option<Op> {
        if self.m.steps >= self.len {
            return None;
        }
        let w = self.m.world;
        // set-up phase: which scanners exist and how they share a compilation
        let ncfg = w.configs.len();
        let plan: Vec<(usize, usize, BuildHow)> = match self.sharing {
            0 => vec![(0, 0, BuildHow::Uncached)],
            1 => vec![(0, 0, BuildHow::Cached), (1, 0, BuildHow::Cached)],
            2 => vec![(0, 0, BuildHow::Cached), (1, ncfg - 1, BuildHow::Uncached)],
            _ => vec![(0, 0, BuildHow::Cached), (1, 0, BuildHow::Cached), (2, ncfg - 1, BuildHow::Cached)],
        };
        if self.setup < plan.len() {
            let (sc, cfg, how) = plan[self.setup];
            self.setup += 1;
            return Some(Op::Build { sc, cfg, how });
        }
        let scs = self.m.live_scanners();
        if scs.is_empty() {
            return None;
        }
        if let Some(op) = self.prelude.pop() {
            return Some(op);
        }
        let client = self.schedule(rng);
        let slots = [client * 2, client * 2 + 1];
        let live: Vec<usize> = slots.iter().copied().filter(|s| self.m.iters[*s].is_some()).collect();
        let free: Vec<usize> = slots.iter().copied().filter(|s| self.m.iters[*s].is_none()).collect();
        if live.is_empty() || (!free.is_empty() && rng.chance(1, 8)) {
            let it = *rng.pick(&free);
            let mut input = rng.below(w.inputs.len());
            // buffer recycling: after a drop, prefer ANOTHER input of exactly the same byte length
            if let Some(d) = self.last_dropped_input {
                let sib: Vec<usize> = (0..w.inputs.len()).filter(|i| *i != d && w.inputs[*i].len() == w.inputs[d].len() && w.inputs[*i] != w.inputs[d]).collect();
                if !sib.is_empty() && rng.chance(2, 3) {
                    input = *rng.pick(&sib);
                }
            }
            let with_offset = if rng.chance(1, 8) { Some(*rng.pick(&gen::boundaries(&w.inputs[input]))) } else { None };
            return Some(Op::NewIter { it, sc: *rng.pick(&scs), input, positions: rng.chance(1, 6), with_offset });
        }
        let it = *rng.pick(&live);
        let im = self.m.iters[it].as_ref().unwrap();
        // an iterator abandoned right after a peek (nothing consumed since)
        if im.last_peek.is_some() && rng.chance(1, 5) {
            return Some(Op::DropIter { it });
        }
        let plain = !im.positions;
        let can_adv = plain && im.last_peek.as_ref().map(|p| !p.1.is_empty()).unwrap_or(false);
        Some(match rng.weighted(&[50, if plain { 10 } else { 0 }, 8, 6, 4, 5, 3, 2, if can_adv { 8 } else { 0 }]) {
            0 => Op::Next { it },
            1 => Op::PeekN { it, n: rng.range(1, 4) },
            2 => Op::SetModeIter { it, mode: rng.below(self.m.n_modes(it)) },
            3 => {
                let offset = self.m.pick_boundary(rng, it, None);
                gen_reset(rng, it, offset)
            }
            4 => Op::DropIter { it },
            5 => {
                let sc = *rng.pick(&scs);
                let n = self.m.scanners[sc].map(|c| w.configs[c].len()).unwrap_or(1);
                Op::SetModeScanner { sc, mode: rng.below(n) }
            }
            6 => {
                // rebuild a scanner slot (same plan entry) while its iterators are alive
                let (sc, cfg, how) = *rng.pick(&plan);
                Op::Build { sc, cfg, how }
            }
            7 => Op::DropScanner { sc: *rng.pick(&scs) },
            _ => Op::AdvanceToPeeked { it, k: rng.below(im.last_peek.as_ref().unwrap().1.len()) },
        })
    }
    fn observe(&mut self, op: &Op, obs: &Obs) {
        if let Op::DropIter { it } = op {
            if let Some(Some(m)) = self.m.iters.get(*it) {
                self.last_dropped_input = Some(m.input);
            }
        }
        self.m.observe(op, obs)
    }
}

/// An iterator together with the buffer it scans. Every iterator gets its OWN heap copy of the
/// input, freed when the iterator goes away, so that later iterators are handed recycled
/// addresses with other text behind them (what a parser reusing its buffer does).
struct Live {
    // field order matters: the iterator is dropped before the buffer it borrows
    f: It<'static>,
    buf: Box<str>,
    inst: usize,
    sc: usize,
    n_modes: usize,
    last_peek: Option<Vec<Tok>>,
    nexts: usize,
    exhausted: bool,
}

struct Inst {
    cfg: usize,
    how: BuildHow,
    input: usize,
    with_offset: Option<usize>,
    positions: bool,
    recs: Vec<(usize, Op, Obs)>,
}

struct Exec12<'w> {
    world: &'w World,
    scanners: Vec<Option<(Scanner, usize, BuildHow, usize)>>,
    iters: Vec<Option<Live>>,
    insts: Vec<Inst>,
    last_inst: Option<usize>,
    switches: usize,
    /// peek-free replays that compared at least one call (counted in the replay thread)
    peek_free: std::sync::atomic::AtomicU64,
}

/// Apply one iterator operation; identical code for the interleaved run and the solo replay.
/// Returns None if the operation's precondition does not hold (skipped).
fn apply(f: &mut It<'_>, input: &str, n_modes: usize, last_peek: &mut Option<Vec<Tok>>, op: &Op) -> Option<Obs> {
    let lp = last_peek.clone();
    let obs = match op {
        Op::Next { .. } => {
            if matches!(f, It::Pos(_)) {
                match guarded(|| f.next_ext()) {
                    Ok(t) => Obs::TokPos(t),
                    Err(p) => Obs::Panic(p),
                }
            } else {
                match guarded(|| f.next_tok()) {
                    Ok(t) => Obs::Tok(t),
                    Err(p) => Obs::Panic(p),
                }
            }
        }
        Op::Drain { .. } => {
            // scan to the end; the observation is the number of tokens and the last one
            let mut n = 0usize;
            let mut last = None;
            let mut res = None;
            for _ in 0..input.len() + 2 {
                match guarded(|| if matches!(f, It::Pos(_)) { f.next_ext() } else { f.next_tok().map(|t| (t, (0, 0), (0, 0))) }) {
                    Ok(Some(t)) => {
                        n += 1;
                        last = Some(t);
                    }
                    Ok(None) => break,
                    Err(p) => {
                        res = Some(Obs::Panic(p));
                        break;
                    }
                }
            }
            res.unwrap_or(Obs::Toks(vec![(n, 0, 0), last.map(|t| t.0).unwrap_or((0, 0, 0)), last.map(|t| (t.1 .0, t.1 .1, t.2 .0)).unwrap_or((0, 0, 0))]))
        }
        Op::PeekN { n, .. } => {
            f.plain()?;
            match guarded(|| sut::peek_obs(f.plain().unwrap().peek_n(*n))) {
            Ok((k, v)) => {
                *last_peek = Some(v.clone());
                return Some(Obs::Peek(k, v));
            }
            Err(p) => Obs::Panic(p),
            }
        }
        Op::AdvanceToPeeked { k, .. } => {
            let pk = lp?;
            let t = pk.get(*k)?;
            f.plain()?;
            match guarded(|| f.plain().unwrap().advance_to(t.2)) {
                Ok(r) => Obs::Num(r),
                Err(p) => Obs::Panic(p),
            }
        }
        Op::SetOffset { offset, .. } | Op::WithOffsetMid { offset, .. } => {
            if *offset > input.len() || !input.is_char_boundary(*offset) {
                return None;
            }
            let mid = matches!(op, Op::WithOffsetMid { .. });
            match guarded(|| if mid { f.with_offset_mid(*offset) } else { f.set_offset(*offset) }) {
                Ok(()) => Obs::Unit,
                Err(p) => Obs::Panic(p),
            }
        }
        Op::SetModeIter { mode, .. } => {
            if *mode >= n_modes {
                return None;
            }
            f.set_mode(*mode);
            Obs::Num(f.current_mode())
        }
        _ => return None,
    };
    *last_peek = None;
    Some(obs)
}

impl<'w> Exec12<'w> {
    /// The solo replay runs in a fresh thread (fresh thread-local state), with the process-wide
    /// cache cleared, on a fresh handle and on the world's own copy of the input.
    /// All solo replays of a run share ONE fresh thread (a thread per replay costs too much).
    fn solo_all(&self) -> Option<Violation> {
        std::thread::scope(|s| {
            s.spawn(|| {
                let mut first: Option<Violation> = None;
                for inst in &self.insts {
                    if inst.recs.is_empty() {
                        continue;
                    }
                    if let Some(v) = self.solo_inner(inst) {
                        if first.as_ref().map(|f| v.step < f.step).unwrap_or(true) {
                            first = Some(v);
                        }
                    }
                }
                first
            })
            .join()
            .unwrap_or(None)
        })
    }

    fn solo_inner(&self, inst: &Inst) -> Option<Violation> {
        let cfg = &self.world.configs[inst.cfg];
        let input: &str = &self.world.inputs[inst.input];
        // the solo replay must not depend on what the interleaved run left in the process-wide cache
        scnr::verif::clear_scanner_cache();
        let sc = match sut::build(cfg, inst.how) {
            Ok(s) => s,
            Err(e) => {
                let step = inst.recs.first().map(|r| r.0).unwrap_or(0);
                return Some(viol("C12/solo_replay/rebuild_failed".into(), step, "the same configuration builds again", e));
            }
        };
        let mut f = It::new(&sc, input, inst.positions, inst.with_offset);
        let mut lp = None;
        for (step, op, obs) in &inst.recs {
            let got = apply(&mut f, input, cfg.len(), &mut lp, op);
            let Some(got) = got else {
                return Some(viol(format!("C12/solo_replay/{}", op.kind()), *step, obs, "operation not applicable in the solo replay"));
            };
            if got != *obs {
                return Some(viol(format!("C12/solo_replay/{}", op.kind()), *step, format!("solo replay: {:?}", got), format!("interleaved: {:?}", obs)));
            }
            if matches!(got, Obs::Panic(_)) {
                break;
            }
        }
        // "... unaffected by peeks": the same calls with every peek left out, on another fresh
        // iterator, up to the first call that needs a peeked match (advance_to)
        if inst.recs.iter().any(|(_, op, _)| matches!(op, Op::PeekN { .. })) {
            let mut f = It::new(&sc, input, inst.positions, inst.with_offset);
            let mut lp = None;
            let mut compared = false;
            for (step, op, obs) in &inst.recs {
                if matches!(op, Op::PeekN { .. }) {
                    continue;
                }
                if matches!(op, Op::AdvanceToPeeked { .. }) || matches!(obs, Obs::Panic(_)) {
                    break;
                }
                let Some(got) = apply(&mut f, input, cfg.len(), &mut lp, op) else { break };
                if got != *obs {
                    return Some(viol(format!("C12/peek_free_replay/{}", op.kind()), *step, format!("replay without the peeks: {:?}", got), format!("with the peeks: {:?}", obs)));
                }
                compared = true;
            }
            if compared {
                self.peek_free.fetch_add(1, std::sync::atomic::Ordering::Relaxed);
            }
        }
        None
    }
}

impl<'w> Exec for Exec12<'w> {
    fn step(&mut self, idx: usize, op: &Op) -> StepOut {
        let world = self.world;
        match op {
            Op::Build { sc, cfg, how } => {
                let Some(c) = world.configs.get(*cfg) else { return StepOut::skipped() };
                if *how == BuildHow::AddPatterns {
                    return StepOut::skipped();
                }
                grow(&mut self.scanners, *sc);
                if self.scanners[*sc].is_some() && self.iters.iter().flatten().any(|l| l.sc == *sc) {
                    mark("probe.scanner_rebuilt_while_iterators_live");
                }
                match sut::build(c, *how) {
                    Ok(s) => {
                        if *how == BuildHow::Cached && self.scanners.iter().flatten().any(|x| x.1 == *cfg && x.2 == BuildHow::Cached) {
                            mark("probe.two_handles_one_cached_compilation");
                        }
                        if self.scanners.iter().flatten().any(|x| x.1 != *cfg) {
                            mark("probe.unrelated_scanners");
                        }
                        self.scanners[*sc] = Some((s, *cfg, *how, 0));
                        StepOut::ok(Obs::Built(Ok(())))
                    }
                    Err(Ok(k)) => {
                        self.scanners[*sc] = None;
                        StepOut::ok(Obs::Built(Err(k)))
                    }
                    Err(Err(p)) => {
                        self.scanners[*sc] = None;
                        bump("abort.build_panic");
                        StepOut::abort(Obs::Panic(p))
                    }
                }
            }
            Op::DropScanner { sc } => {
                let Some(slot) = self.scanners.get_mut(*sc) else { return StepOut::skipped() };
                if slot.is_none() {
                    return StepOut::skipped();
                }
                if self.iters.iter().flatten().any(|l| l.sc == *sc) {
                    mark("probe.scanner_dropped_while_iterators_live");
                }
                *slot = None;
                StepOut::ok(Obs::Unit)
            }
            Op::SetModeScanner { sc, mode } => {
                let Some(Some((s, cfg, _, _))) = self.scanners.get_mut(*sc) else { return StepOut::skipped() };
                if *mode >= world.configs[*cfg].len() {
                    return StepOut::skipped();
                }
                bump("fault.mode_override");
                s.set_mode(*mode);
                StepOut::ok(Obs::Unit)
            }
            Op::NewIter { it, sc, input, with_offset, positions } => {
                let Some(Some((s, cfg, how, uses))) = self.scanners.get_mut(*sc) else { return StepOut::skipped() };
                let Some(inp) = world.inputs.get(*input) else { return StepOut::skipped() };
                let inp: &'w str = inp.as_str();
                if let Some(o) = with_offset {
                    if *o > inp.len() || !inp.is_char_boundary(*o) {
                        return StepOut::skipped();
                    }
                }
                grow(&mut self.iters, *it);
                if let Some(old) = &self.iters[*it] {
                    if !old.exhausted {
                        bump("fault.abandon");
                    }
                }
                *uses += 1;
                if *uses >= 2 {
                    mark("probe.scanner_reused_for_second_input");
                }
                if self.iters.iter().flatten().any(|l| l.sc == *sc) {
                    mark("probe.shared_scanner");
                }
                // the previous occupant of the slot goes away first, so that its buffer can be recycled
                self.iters[*it] = None;
                let buf: Box<str> = inp.to_string().into_boxed_str();
                // SAFETY: `buf` is heap-allocated, never mutated, and outlives `f`: both live in the
                // same `Live` value and `f` is declared (hence dropped) first.
                let text: &'static str = unsafe { &*(&*buf as *const str) };
                if *positions {
                    mark("probe.positions_wrapped_iterator");
                }
                let f = It::new(s, text, *positions, *with_offset);
                let inst = self.insts.len();
                self.insts.push(Inst { cfg: *cfg, how: *how, input: *input, with_offset: *with_offset, positions: *positions, recs: vec![] });
                self.iters[*it] = Some(Live { f, buf, inst, sc: *sc, n_modes: world.configs[*cfg].len(), last_peek: None, nexts: 0, exhausted: false });
                StepOut::ok(Obs::Unit)
            }
            Op::DropIter { it } => {
                let Some(slot) = self.iters.get_mut(*it) else { return StepOut::skipped() };
                if let Some(l) = slot {
                    if !l.exhausted {
                        bump("fault.abandon");
                    }
                }
                *slot = None;
                StepOut::ok(Obs::Unit)
            }
            _ => {
                let Some(slot) = op.iter_slot() else { return StepOut::skipped() };
                if !matches!(self.iters.get(slot), Some(Some(_))) {
                    return StepOut::skipped();
                }
                // interleaving measure
                let n_live = self.iters.iter().flatten().count();
                let (my_inst, my_mode, my_sc) = {
                    let l = self.iters[slot].as_ref().unwrap();
                    (l.inst, l.f.current_mode(), l.sc)
                };
                if let Some(prev) = self.last_inst {
                    if prev != my_inst && n_live >= 2 {
                        self.switches += 1;
                        if self.switches >= 2 {
                            mark("probe.two_live_iters_two_ctx_switches");
                        }
                    }
                }
                self.last_inst = Some(my_inst);
                if matches!(op, Op::Next { .. })
                    && self.iters.iter().enumerate().any(|(i, l)| {
                        i != slot && l.as_ref().map(|l| l.sc == my_sc && l.nexts > 0 && !l.exhausted && l.f.current_mode() != my_mode).unwrap_or(false)
                    })
                {
                    mark("probe.neighbour_midstream_in_other_mode");
                }
                let l = self.iters[slot].as_mut().unwrap();
                if matches!(op, Op::SetModeIter { .. }) {
                    bump("fault.mode_override");
                }
                let Some(obs) = apply(&mut l.f, &l.buf, l.n_modes, &mut l.last_peek, op) else { return StepOut::skipped() };
                match &obs {
                    Obs::Tok(t) => {
                        l.nexts += 1;
                        if t.is_none() {
                            l.exhausted = true;
                        }
                    }
                    Obs::TokPos(t) => {
                        l.nexts += 1;
                        if t.is_none() {
                            l.exhausted = true;
                        }
                    }
                    Obs::Toks(_) => l.exhausted = true,
                    _ => {}
                }
                if matches!(op, Op::SetOffset { .. } | Op::WithOffsetMid { .. }) {
                    l.exhausted = false;
                }
                self.insts[my_inst].recs.push((idx, op.clone(), obs.clone()));
                if matches!(obs, Obs::Panic(_)) {
                    self.iters[slot] = None;
                }
                StepOut::ok(obs)
            }
        }
    }

    fn finish(&mut self, _n_ops: usize) -> Option<Violation> {
        // maximal isolation: nothing of the interleaved run is alive during the solo replays
        self.iters.clear();
        self.scanners.clear();
        bump_by("probe.solo_replays", self.insts.iter().filter(|i| !i.recs.is_empty()).count() as u64);
        let first = self.solo_all();
        bump_by("probe.peek_free_replays", self.peek_free.load(std::sync::atomic::Ordering::Relaxed));
        first
    }
}
