//! Property profiles: workload generator + executor/oracle per claimed property.

use crate::gen::Corpus;
use crate::rng::Rng;
use crate::spec::*;
use std::collections::BTreeSet;

pub mod common;
pub mod c06;
pub mod c07;
pub mod c09;
pub mod c10;
pub mod c11;
pub mod c12;
pub mod c13;
pub mod c18;

pub struct StepOut {
    pub obs: Obs,
    pub violation: Option<Violation>,
    /// stop this run without a verdict (e.g. both sides of a relational check panicked)
    pub abort: bool,
}

impl StepOut {
    pub fn ok(obs: Obs) -> Self {
        StepOut { obs, violation: None, abort: false }
    }
    pub fn skipped() -> Self {
        StepOut { obs: Obs::Skipped, violation: None, abort: false }
    }
    pub fn abort(obs: Obs) -> Self {
        StepOut { obs, violation: None, abort: true }
    }
    pub fn fail(obs: Obs, v: Violation) -> Self {
        StepOut { obs, violation: Some(v), abort: false }
    }
}

/// Executes a literal history against real scnr and judges it. Never draws random numbers.
pub trait Exec {
    fn step(&mut self, idx: usize, op: &Op) -> StepOut;
    /// end-of-history checks
    fn finish(&mut self, _n_ops: usize) -> Option<Violation> {
        None
    }
}

/// Draws the next operation from the PRNG and what it has observed so far.
pub trait Gen {
    fn next_op(&mut self, rng: &mut Rng) -> Option<Op>;
    fn observe(&mut self, op: &Op, obs: &Obs);
}

pub trait Prop: Sync {
    fn id(&self) -> &'static str;
    fn tag(&self) -> u64 {
        self.id().bytes().fold(0u64, |a, b| a * 131 + b as u64)
    }
    fn gen_world(&self, rng: &mut Rng, corpus: &Corpus) -> World;
    fn new_gen<'w>(&self, world: &'w World, rng: &mut Rng) -> Box<dyn Gen + 'w>;
    fn new_exec<'w>(&self, world: &'w World) -> Box<dyn Exec + 'w>;
    /// which per-run marks make a run non-trivial for this property
    fn nontrivial(&self, marks: &BTreeSet<&'static str>) -> bool;
    fn rule(&self) -> &'static str;
    /// default number of runs per tier (quick, thorough)
    fn runs(&self) -> (u64, u64);
    /// reach probes that are expected to be non-zero in any reasonably sized batch
    fn expected_probes(&self) -> &'static [&'static str];
    /// the process-wide scanner cache must be cleared before each run
    fn uses_cache(&self) -> bool {
        true
    }
    /// real components / assumptions, for the evidence file
    fn assumptions(&self) -> Vec<String> {
        vec![]
    }
}

pub fn all() -> Vec<Box<dyn Prop>> {
    vec![
        Box::new(c06::C06),
        Box::new(c07::C07),
        Box::new(c09::C09),
        Box::new(c10::C10),
        Box::new(c11::C11),
        Box::new(c12::C12),
        Box::new(c13::C13),
        Box::new(c18::C18),
    ]
}

pub fn by_id(id: &str) -> Option<Box<dyn Prop>> {
    all().into_iter().find(|p| p.id().eq_ignore_ascii_case(id))
}

pub fn viol(sig: String, step: usize, expected: impl std::fmt::Debug, observed: impl std::fmt::Debug) -> Violation {
    Violation {
        signature: sig,
        step,
        expected: format!("{:?}", expected),
        observed: format!("{:?}", observed),
    }
}
