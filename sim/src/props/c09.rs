//! C09 — line/column of a token are those of its start offset, under resets and exhaustion.
//! Oracle: a trivial line/column model (count '\n', byte column).

use super::common::*;
use super::*;
use crate::gen::{self, Knobs};
use crate::sut::{self, bump, guarded, mark, It};
use scnr::Scanner;

pub struct C09;

impl Prop for C09 {
    fn id(&self) -> &'static str {
        "C09"
    }
    fn gen_world(&self, rng: &mut Rng, corpus: &Corpus) -> World {
        if rng.chance(1, 100) {
            // a giant input with more than a thousand line breaks, scanned and dropped before the
            // ordinary history starts: whatever an iterator leaves behind (recycled tables, pools)
            // must not reach the next one
            let n = rng.range(1100, 1400);
            let mut giant = String::new();
            for i in 0..n {
                giant.push(if i % 17 == 3 { 'a' } else if i % 29 == 5 { '#' } else { '\n' });
            }
            let k = Knobs { configs: (1, 1), modes: (1, 1), patterns: (1, 3), inputs: (1, 1), input_len: (4, 44), newline_rich: true, ..Knobs::default() };
            let mut gw = gen::gen_world(rng, &k);
            gw.world.configs[0][0].patterns.push(PatternSpec { pattern: "a|\\n".into(), token_type: 4242, lookahead: None });
            gw.world.inputs.insert(0, giant);
            gw.world.note = "giant".into();
            mark("probe.giant_newline_input");
            return gw.world;
        }
        if rng.chance(1, 300) {
            if let Some(w) = gen::corpus_world(rng, corpus, 160, 2, false) {
                mark("probe.corpus_world");
                return w;
            }
        }
        let k = Knobs {
            configs: (1, 1),
            modes: (1, 2),
            patterns: (1, 4),
            lookahead_pct: *rng.pick(&[0, 0, 0, 15]),
            inputs: (1, 2),
            input_len: gen_input_len(rng, 44),
            newline_rich: true,
            ..Knobs::default()
        };
        let mut gw = gen::gen_world(rng, &k);
        // make \r\n and trailing newlines frequent
        for inp in gw.world.inputs.iter_mut() {
            if rng.chance(1, 4) {
                *inp = inp.replace('\n', "\r\n");
            }
            if rng.chance(1, 3) && !inp.ends_with('\n') {
                inp.push('\n');
            }
        }
        // in a third of the worlds add a pattern that matches line breaks, so that tokens end in one
        if rng.chance(1, 3) {
            let used: Vec<usize> = gw.world.configs[0][0].patterns.iter().map(|p| p.token_type).collect();
            let mut t = 61;
            while used.iter().any(|x| gen::same_type(*x, t)) {
                t += 1;
            }
            let pat = rng.pick(&["\\n", "\\r?\\n", "[^\\n]*\\n", "(?:.|\\n)+", "\\n+"]).to_string();
            let at = rng.below(gw.world.configs[0][0].patterns.len() + 1);
            gw.world.configs[0][0].patterns.insert(at, PatternSpec { pattern: pat, token_type: t, lookahead: None });
        }
        gw.world
    }
    fn new_gen<'w>(&self, world: &'w World, rng: &mut Rng) -> Box<dyn Gen + 'w> {
        let prelude = if world.note == "giant" {
            vec![
                Op::Drain { it: 0, extra: 0 },
                Op::NewIter { it: 0, sc: 0, input: 0, positions: true, with_offset: None },
                Op::Build { sc: 0, cfg: 0, how: BuildHow::Uncached },
            ]
        } else {
            vec![]
        };
        Box::new(Gen09 { m: GenModel::new(world, 1, 2), len: gen_history_len(rng, 8, 60), prelude })
    }
    fn new_exec<'w>(&self, world: &'w World) -> Box<dyn Exec + 'w> {
        Box::new(Exec09 { world, scanners: vec![], iters: vec![] })
    }
    fn nontrivial(&self, marks: &BTreeSet<&'static str>) -> bool {
        marks.contains("probe.reset_after_consumed_newline") || marks.contains("probe.exhausted_with_trailing_newline")
    }
    fn rule(&self) -> &'static str {
        "one case = (world, history of next-with-positions/set_offset to scanned offsets/drain/position queries) from (seed, run index); distinct = distinct hash of literal world+history; non-trivial = a reset issued after a newline was consumed, or exhaustion of an input with a trailing newline"
    }
    fn runs(&self) -> (u64, u64) {
        (500_000, 20_000_000)
    }
    fn expected_probes(&self) -> &'static [&'static str] {
        &[
            "probe.reset_after_consumed_newline", "probe.exhausted_with_trailing_newline", "probe.token_on_line_gt1",
            "probe.token_ends_in_newline", "probe.token_spans_lines", "probe.position_query", "probe.position_query_after_reset",
            "probe.multibyte_before_token", "probe.giant_newline_input", "probe.reset_right_after_newline", "probe.token_after_reset",
            "fault.reset_back", "fault.reset_zero", "fault.exhaust_then_continue",
        ]
    }
    fn uses_cache(&self) -> bool {
        false
    }
}

struct Gen09<'w> {
    m: GenModel<'w>,
    len: usize,
    /// scripted operations executed first (popped from the end)
    prelude: Vec<Op>,
}

impl<'w> Gen for Gen09<'w> {
    fn next_op(&mut self, rng: &mut Rng) -> Option<Op> {
        if let Some(op) = self.prelude.pop() {
            return Some(op);
        }
        if self.m.steps >= self.len {
            return None;
        }
        let w = self.m.world;
        if self.m.live_scanners().is_empty() {
            if self.m.steps > 2 {
                return None;
            }
            return Some(Op::Build { sc: 0, cfg: 0, how: BuildHow::Uncached });
        }
        let its = self.m.live_iters();
        let free = self.m.free_iters();
        // after the giant prelude the giant iterator is replaced (dropped) by an ordinary one
        let replace_giant = w.note == "giant" && self.m.steps == 3;
        if its.is_empty() || replace_giant || (!free.is_empty() && rng.chance(1, 25)) {
            let it = if replace_giant { 0 } else if free.is_empty() { rng.below(self.m.iters.len()) } else { *rng.pick(&free) };
            let input = if w.note == "giant" { 1 } else { rng.below(w.inputs.len()) };
            return Some(Op::NewIter { it, sc: 0, input, positions: true, with_offset: None });
        }
        let it = *rng.pick(&its);
        let hwm = self.m.iters[it].as_ref().unwrap().hwm;
        Some(match rng.weighted(&[45, 15, 20, 4, 4]) {
            0 => Op::Next { it },
            1 => Op::SetOffset { it, offset: self.m.pick_boundary(rng, it, Some(hwm)) },
            2 => Op::Position { it, offset: self.m.pick_boundary(rng, it, Some(hwm)) },
            3 => Op::Drain { it, extra: rng.range(0, 2) },
            _ => Op::SetModeIter { it, mode: rng.below(self.m.n_modes(it)) },
        })
    }
    fn observe(&mut self, op: &Op, obs: &Obs) {
        self.m.observe(op, obs)
    }
}

pub fn true_pos(input: &str, o: usize) -> (usize, usize) {
    let pre = &input.as_bytes()[..o];
    let line = 1 + pre.iter().filter(|b| **b == b'\n').count();
    let ls = pre.iter().rposition(|b| *b == b'\n').map(|i| i + 1).unwrap_or(0);
    (line, o - ls + 1)
}

/// For an offset right after a line break: "the column after that line break" on its own line.
pub fn alt_pos(input: &str, o: usize) -> Option<(usize, usize)> {
    if o > 0 && input.as_bytes()[o - 1] == b'\n' {
        let (l, c) = true_pos(input, o - 1);
        Some((l, c + 1))
    } else {
        None
    }
}

fn pos_ok(input: &str, o: usize, got: (usize, usize)) -> bool {
    got == true_pos(input, o) || Some(got) == alt_pos(input, o)
}

struct St<'w> {
    it: It<'w>,
    input: &'w str,
    n_modes: usize,
    hwm: usize,
    cursor: usize,
    exhausted: bool,
    was_reset: bool,
}

struct Exec09<'w> {
    world: &'w World,
    scanners: Vec<Option<(Scanner, usize)>>,
    iters: Vec<Option<St<'w>>>,
}

type Ext = (Tok, (usize, usize), (usize, usize));

fn judge(st: &mut St<'_>, idx: usize, r: Option<Ext>) -> Option<Violation> {
    match r {
        None => {
            if st.exhausted {
                bump("fault.exhaust_then_continue");
            }
            st.exhausted = true;
            st.hwm = st.input.len();
            st.cursor = st.input.len();
            if st.input.ends_with('\n') {
                mark("probe.exhausted_with_trailing_newline");
            }
            None
        }
        Some((t, sp, ep)) => {
            let (_, s, e) = t;
            if e > st.input.len() || s > e || !st.input.is_char_boundary(s) || !st.input.is_char_boundary(e) {
                // malformed span: C07's business
                return None;
            }
            st.hwm = st.hwm.max(e);
            st.cursor = e;
            let ts = true_pos(st.input, s);
            if ts.0 > 1 {
                mark("probe.token_on_line_gt1");
            }
            if st.was_reset {
                mark("probe.token_after_reset");
            }
            if st.input[..s].chars().any(|c| c.len_utf8() > 1) {
                mark("probe.multibyte_before_token");
            }
            if st.input[s..e].ends_with('\n') {
                mark("probe.token_ends_in_newline");
            }
            if st.input[s..e].contains('\n') && !st.input[s..e].ends_with('\n') {
                mark("probe.token_spans_lines");
            }
            if sp != ts {
                return Some(viol("C09/start_position".into(), idx, format!("token {:?} starts at line {} column {}", t, ts.0, ts.1), sp));
            }
            if !pos_ok(st.input, e, ep) {
                return Some(viol(
                    "C09/end_position".into(),
                    idx,
                    format!("token {:?} ends at {:?} (or {:?})", t, true_pos(st.input, e), alt_pos(st.input, e)),
                    ep,
                ));
            }
            None
        }
    }
}

impl<'w> Exec for Exec09<'w> {
    fn step(&mut self, idx: usize, op: &Op) -> StepOut {
        match op {
            Op::Build { sc, cfg, .. } => {
                let Some(c) = self.world.configs.get(*cfg) else { return StepOut::skipped() };
                grow(&mut self.scanners, *sc);
                match sut::build(c, BuildHow::Uncached) {
                    Ok(s) => {
                        self.scanners[*sc] = Some((s, *cfg));
                        StepOut::ok(Obs::Built(Ok(())))
                    }
                    Err(Ok(k)) => {
                        self.scanners[*sc] = None;
                        StepOut::ok(Obs::Built(Err(k)))
                    }
                    Err(Err(p)) => {
                        self.scanners[*sc] = None;
                        bump("abort.build_panic");
                        StepOut::abort(Obs::Panic(p))
                    }
                }
            }
            Op::NewIter { it, sc, input, .. } => {
                let Some(Some((s, cfg))) = self.scanners.get(*sc) else { return StepOut::skipped() };
                let Some(inp) = self.world.inputs.get(*input) else { return StepOut::skipped() };
                let inp: &'w str = inp.as_str();
                grow(&mut self.iters, *it);
                self.iters[*it] = Some(St {
                    it: It::new(s, inp, true, None),
                    input: inp,
                    n_modes: self.world.configs[*cfg].len(),
                    hwm: 0,
                    cursor: 0,
                    exhausted: false,
                    was_reset: false,
                });
                StepOut::ok(Obs::Unit)
            }
            Op::DropIter { it } => {
                if let Some(s) = self.iters.get_mut(*it) {
                    *s = None;
                }
                StepOut::ok(Obs::Unit)
            }
            _ => {
                let Some(slot) = op.iter_slot() else { return StepOut::skipped() };
                let Some(Some(st)) = self.iters.get_mut(slot) else { return StepOut::skipped() };
                let out = match op {
                    Op::Next { .. } => match guarded(|| st.it.next_ext()) {
                        Ok(r) => {
                            let v = judge(st, idx, r);
                            StepOut { obs: Obs::TokPos(r), violation: v, abort: false }
                        }
                        Err(p) => {
                            bump("abort.next_panic");
                            StepOut::abort(Obs::Panic(p))
                        }
                    },
                    Op::Drain { extra, .. } => {
                        let mut toks = Vec::new();
                        let mut res = None;
                        let mut nones = 0;
                        let mut calls = 0;
                        while nones < 1 + *extra && calls < st.input.len() + 4 + *extra {
                            calls += 1;
                            match guarded(|| st.it.next_ext()) {
                                Ok(r) => {
                                    match r {
                                        None => nones += 1,
                                        Some(x) => toks.push(x.0),
                                    }
                                    if let Some(v) = judge(st, idx, r) {
                                        res = Some(StepOut::fail(Obs::Toks(toks.clone()), v));
                                        break;
                                    }
                                }
                                Err(p) => {
                                    bump("abort.next_panic");
                                    res = Some(StepOut::abort(Obs::Panic(p)));
                                    break;
                                }
                            }
                        }
                        res.unwrap_or_else(|| StepOut::ok(Obs::Toks(toks)))
                    }
                    Op::SetOffset { offset, .. } => {
                        // only to already scanned offsets, on character boundaries
                        if *offset > st.hwm || !st.input.is_char_boundary(*offset) {
                            return StepOut::skipped();
                        }
                        super::c10::classify_reset(*offset, st.input.len(), st.cursor);
                        if st.input[..st.hwm].contains('\n') {
                            mark("probe.reset_after_consumed_newline");
                        }
                        if *offset > 0 && st.input.as_bytes()[*offset - 1] == b'\n' {
                            mark("probe.reset_right_after_newline");
                        }
                        match guarded(|| st.it.set_offset(*offset)) {
                            Ok(()) => {
                                st.cursor = *offset;
                                st.exhausted = false;
                                st.was_reset = true;
                                StepOut::ok(Obs::Unit)
                            }
                            Err(p) => StepOut::fail(Obs::Panic(p.clone()), viol(format!("C09/panic/set_offset/{}", sut::panic_class(&p)), idx, "no panic", p)),
                        }
                    }
                    Op::Position { offset, .. } => {
                        if *offset > st.hwm || !st.input.is_char_boundary(*offset) {
                            return StepOut::skipped();
                        }
                        mark("probe.position_query");
                        if st.was_reset {
                            mark("probe.position_query_after_reset");
                        }
                        match guarded(|| st.it.position(*offset)) {
                            Ok(got) => {
                                if pos_ok(st.input, *offset, got) {
                                    StepOut::ok(Obs::Pos(got.0, got.1))
                                } else {
                                    StepOut::fail(
                                        Obs::Pos(got.0, got.1),
                                        viol(
                                            "C09/position_query".into(),
                                            idx,
                                            format!("position({}) = {:?} (or {:?})", offset, true_pos(st.input, *offset), alt_pos(st.input, *offset)),
                                            got,
                                        ),
                                    )
                                }
                            }
                            Err(p) => StepOut::fail(Obs::Panic(p.clone()), viol(format!("C09/panic/position/{}", sut::panic_class(&p)), idx, "a position", p)),
                        }
                    }
                    Op::SetModeIter { mode, .. } => {
                        if *mode >= st.n_modes {
                            return StepOut::skipped();
                        }
                        st.it.set_mode(*mode);
                        StepOut::ok(Obs::Unit)
                    }
                    _ => return StepOut::skipped(),
                };
                if matches!(out.obs, Obs::Panic(_)) {
                    self.iters[slot] = None;
                }
                out
            }
        }
    }
}
