//! C13 — the scanner cache is transparent.
//! Build histories over a family of equal / near-identical / unrelated / failing configurations.
//! Oracle: for each build() the twin build_uncached() of the identical mode list.

use super::*;
use crate::gen::{self, Knobs};
use crate::sut::{self, bump, guarded, mark};
use scnr::{Scanner, ScannerModeSwitcher};

pub struct C13;

impl Prop for C13 {
    fn id(&self) -> &'static str {
        "C13"
    }
    fn gen_world(&self, rng: &mut Rng, corpus: &Corpus) -> World {
        let k = Knobs {
            configs: (1, 1),
            modes: (1, 3),
            patterns: (1, 4),
            lookahead_pct: *rng.pick(&[0, 20, 40, 60]),
            inputs: (2, 3),
            input_len: (0, 24),
            max_depth: 2,
            ..Knobs::default()
        };
        let mut gw = gen::gen_world(rng, &k);
        let mut note = String::from("family:");
        let mut base = gw.world.configs[0].clone();
        if rng.chance(1, 60) && !corpus.entries.is_empty() {
            // a repository corpus as the base of the family (not the heavy veryl one)
            let cands: Vec<_> = corpus.entries.iter().filter(|e| !e.0.contains("veryl") && !e.0.contains("parol")).collect();
            if !cands.is_empty() {
                let e = rng.pick(&cands);
                base = e.1.clone();
                let b = gen::boundaries(&e.2);
                let s = *rng.pick(&b);
                gw.world.inputs.push(e.2[s..].chars().take(40).collect());
                note.push_str(&format!(" corpus={}", e.0));
                mark("probe.corpus_world");
            }
        }
        let mut configs: Vec<Config> = vec![base.clone()];
        // add_patterns twin: a single-mode INITIAL configuration with index token types
        if rng.chance(1, 2) {
            let simple = gen::make_simple(&base);
            configs.push(simple.clone());
            note.push_str(" simple");
            // pattern lists whose concatenation coincides with the simple one's
            for _ in 0..rng.range(0, 2) {
                if let Some(m) = gen::merge_simple_variant(rng, &simple) {
                    if !configs.contains(&m) {
                        configs.push(m);
                        note.push_str(" merged");
                        mark("probe.family_has_merged_pattern_lists");
                    }
                }
            }
        }
        // one family in fifty is huge: 140 trivial distinct configurations (more than any small
        // bounded cache keeps), built once each and then revisited
        if rng.chance(1, 50) {
            let mut configs: Vec<Config> = Vec::new();
            for i in 0..140usize {
                configs.push(vec![ModeSpec { name: "INITIAL".into(), patterns: vec![PatternSpec { pattern: format!("a{{{}}}b?", 1 + i % 7), token_type: i, lookahead: None }], transitions: vec![] }]);
            }
            mark("probe.huge_family");
            return World { configs, inputs: vec!["aaab aab".to_string()], note: "huge family".into() };
        }
        // one family in ten is large (more distinct entries than a small bounded cache would keep)
        let large = rng.chance(1, 10);
        if large {
            mark("probe.large_family");
        }
        let nv = if large { rng.range(20, 30) } else { rng.range(3, 8) };
        for _ in 0..nv {
            let kind = *rng.pick(gen::VARIANT_KINDS);
            // variants of the base, sometimes variants of variants
            let from = if rng.chance(1, 4) { rng.pick(&configs).clone() } else { base.clone() };
            if let Some(v) = gen::near_variant(rng, &from, kind, &gw.alphabet) {
                if !configs.contains(&v) {
                    configs.push(v);
                    note.push_str(&format!(" {}", kind));
                    if kind == "la_flip" {
                        mark("probe.family_has_polarity_twins");
                    }
                }
            }
        }
        if rng.chance(1, 2) {
            let g = gen::gen_config(rng, &gw.alphabet, &k);
            if !configs.contains(&g.config) {
                configs.push(g.config);
                note.push_str(" unrelated");
            }
        }
        let nf = rng.range(0, 3);
        for _ in 0..nf {
            let kind = *rng.pick(gen::FAIL_KINDS);
            let from = rng.pick(&configs).clone();
            if let Some(v) = gen::failing_variant(rng, &from, kind) {
                if !configs.contains(&v) {
                    configs.push(v);
                    note.push_str(&format!(" FAIL:{}", kind));
                }
            }
        }
        // witness inputs so that variants are actually distinguished
        let mut wit = String::new();
        for m in &gw.configs[0].rx {
            for rx in m {
                rx.witness(rng, &gw.alphabet.all, &mut wit);
                if rng.chance(1, 3) {
                    wit.push(*rng.pick(&gw.alphabet.all));
                }
            }
        }
        gw.world.inputs.push(wit.chars().take(40).collect());
        gw.world.configs = configs;
        gw.world.note = note;
        gw.world
    }
    fn new_gen<'w>(&self, world: &'w World, rng: &mut Rng) -> Box<dyn Gen + 'w> {
        let len = if world.configs.len() >= 140 { rng.range(200, 300) } else if world.configs.len() > 18 { rng.range(40, 60) } else { rng.range(5, 25) };
        Box::new(Gen13 { world, len, steps: 0, built: vec![] })
    }
    fn new_exec<'w>(&self, world: &'w World) -> Box<dyn Exec + 'w> {
        Box::new(Exec13 { world, seq: vec![], failed_before: false })
    }
    fn nontrivial(&self, marks: &BTreeSet<&'static str>) -> bool {
        marks.contains("probe.hit_after_other_config") && marks.contains("probe.failing_build")
    }
    fn rule(&self) -> &'static str {
        "one case = (family of equal/near-identical/unrelated/failing configurations + probe inputs, history of 5-25 builds through the cache) from (seed, run index); distinct = distinct hash of literal world+history; non-trivial = at least one cache hit after a different configuration was built in between AND at least one failing build"
    }
    fn runs(&self) -> (u64, u64) {
        (40_000, 1_200_000)
    }
    fn expected_probes(&self) -> &'static [&'static str] {
        &[
            "probe.hit", "probe.miss", "probe.hit_after_other_config", "probe.hit_after_failure", "probe.failing_build",
            "probe.failure_with_populated_cache", "probe.repeated_failure", "probe.family_has_polarity_twins",
            "probe.add_patterns_build", "probe.large_family", "probe.huge_family", "probe.family_has_merged_pattern_lists", "probe.behaviour_comparisons", "probe.variant_distinguished_by_probe_inputs",
            "fault.build_fail", "fault.cache_pollution",
        ]
    }
    fn assumptions(&self) -> Vec<String> {
        vec!["hook H1 (clear_scanner_cache / scanner_cache_len) reports the real cache".to_string()]
    }
}

struct Gen13<'w> {
    world: &'w World,
    len: usize,
    steps: usize,
    built: Vec<usize>,
}

impl<'w> Gen for Gen13<'w> {
    fn next_op(&mut self, rng: &mut Rng) -> Option<Op> {
        if self.steps >= self.len {
            return None;
        }
        let n = self.world.configs.len();
        // bias towards repeats (hits) of something built earlier
        let cfg = if !self.built.is_empty() && rng.chance(2, 5) { *rng.pick(&self.built) } else { rng.below(n) };
        let how = if gen::is_simple(&self.world.configs[cfg]) && rng.chance(1, 2) { BuildHow::AddPatterns } else { BuildHow::Cached };
        Some(Op::Build { sc: 0, cfg, how })
    }
    fn observe(&mut self, op: &Op, _obs: &Obs) {
        self.steps += 1;
        if let Op::Build { cfg, .. } = op {
            self.built.push(*cfg);
        }
    }
}

struct Exec13<'w> {
    world: &'w World,
    /// (cfg, ok) of the builds so far
    seq: Vec<(usize, bool)>,
    failed_before: bool,
}

/// Token streams for every start mode on every probe input (bounded), panics captured.
fn behaviour(sc: &Scanner, n_modes: usize, inputs: &[String]) -> Vec<Obs> {
    let mut out = Vec::new();
    for m in 0..n_modes {
        for inp in inputs {
            let r = guarded(|| {
                let mut f = sc.find_iter(inp);
                f.set_mode(m);
                let mut v: Vec<Tok> = Vec::new();
                for _ in 0..inp.len() + 2 {
                    match f.next() {
                        Some(t) => v.push(sut::tok(&t)),
                        None => break,
                    }
                }
                v
            });
            out.push(match r {
                Ok(v) => Obs::Toks(v),
                Err(p) => Obs::Panic(sut::panic_class(&p)),
            });
            // what a parser sees through peek_n at the start and after the first token (a peek stops
            // at a token with a transition, so transitions are observable without consuming)
            let r = guarded(|| {
                let mut f = sc.find_iter(inp);
                f.set_mode(m);
                let a = sut::peek_obs(f.peek_n(3));
                let _ = f.next();
                let b = sut::peek_obs(f.peek_n(2));
                let mode = f.current_mode();
                (a, b, mode)
            });
            out.push(match r {
                Ok((a, b, mode)) => Obs::Peek(a.0, [a.1, vec![(mode, 0, 0)], b.1].concat()),
                Err(p) => Obs::Panic(sut::panic_class(&p)),
            });
        }
    }
    out
}

fn mode_names(sc: &Scanner, n: usize) -> Vec<Option<String>> {
    (0..n + 2).map(|i| sc.mode_name(i).map(|s| s.to_string())).collect()
}

impl<'w> Exec for Exec13<'w> {
    fn step(&mut self, idx: usize, op: &Op) -> StepOut {
        let Op::Build { cfg, how, .. } = op else { return StepOut::skipped() };
        let Some(c) = self.world.configs.get(*cfg) else { return StepOut::skipped() };
        if *how == BuildHow::Uncached {
            return StepOut::skipped();
        }
        if *how == BuildHow::AddPatterns {
            if !gen::is_simple(c) {
                return StepOut::skipped();
            }
            mark("probe.add_patterns_build");
        }
        let len_before = scnr::verif::scanner_cache_len();
        if len_before > 0 {
            bump("fault.cache_pollution");
        }
        let cached = sut::build(c, *how);
        let len_after = scnr::verif::scanner_cache_len();
        let twin = sut::build(c, BuildHow::Uncached);
        let seen_before = self.seq.iter().any(|(x, _)| x == cfg);
        let other_since = {
            // a different configuration was built since the first build of this one
            let first = self.seq.iter().position(|(x, _)| x == cfg);
            first.map(|f| self.seq[f..].iter().any(|(x, ok)| x != cfg && *ok)).unwrap_or(false)
        };
        let out = match (cached, twin) {
            (Err(Err(p)), Err(Err(_))) => {
                bump("abort.symmetric_panic");
                return StepOut::abort(Obs::Panic(p));
            }
            (Err(Err(p)), _) => StepOut::fail(Obs::Panic(p.clone()), viol("C13/build/panic_only_cached".into(), idx, "same outcome as build_uncached()", p)),
            (r, Err(Err(p))) => StepOut::fail(Obs::Built(r.map(|_| ()).map_err(|e| format!("{:?}", e))), viol("C13/build/panic_only_uncached".into(), idx, "no panic", p)),
            (Err(Ok(k1)), Err(Ok(k2))) => {
                bump("fault.build_fail");
                mark("probe.failing_build");
                if len_before > 0 {
                    mark("probe.failure_with_populated_cache");
                }
                if seen_before {
                    mark("probe.repeated_failure");
                }
                self.failed_before = true;
                let obs = Obs::Built(Err(k1.clone()));
                if k1 != k2 {
                    StepOut::fail(obs, viol("C13/result/error_kind".into(), idx, k2, k1))
                } else {
                    if len_after != len_before {
                        // not judged: an implementation may remember failures as long as later
                        // builds are unaffected, which the twin comparison of every later build decides
                        bump("observe.failed_build_changed_cache_len");
                    }
                    StepOut::ok(obs)
                }
            }
            (Err(Ok(k1)), Ok(_)) => StepOut::fail(Obs::Built(Err(k1.clone())), viol("C13/result/cached_fails_uncached_builds".into(), idx, "Ok", k1)),
            (Ok(_), Err(Ok(k2))) => StepOut::fail(Obs::Built(Ok(())), viol("C13/result/cached_builds_uncached_fails".into(), idx, format!("Err({})", k2), "Ok")),
            (Ok(a), Ok(b)) => {
                if len_after == len_before {
                    mark("probe.hit");
                    if other_since {
                        mark("probe.hit_after_other_config");
                    }
                    if self.failed_before {
                        mark("probe.hit_after_failure");
                    }
                } else {
                    mark("probe.miss");
                }
                let n = c.len();
                let obs = Obs::Built(Ok(()));
                let (na, nb) = (mode_names(&a, n), mode_names(&b, n));
                if na != nb {
                    StepOut::fail(obs, viol("C13/behaviour/mode_names".into(), idx, nb, na))
                } else {
                    let (ba, bb) = (behaviour(&a, n, &self.world.inputs), behaviour(&b, n, &self.world.inputs));
                    bump("probe.behaviour_comparisons");
                    // does the probe set distinguish this configuration from the previous one built?
                    if ba != bb {
                        let i = ba.iter().zip(bb.iter()).position(|(x, y)| x != y).unwrap_or(0);
                        let ni = self.world.inputs.len() * 2;
                        StepOut::fail(
                            obs,
                            viol(
                                "C13/behaviour/tokens".into(),
                                idx,
                                format!("uncached, start mode {} input {} ({}): {:?}", i / ni, (i % ni) / 2, if i % 2 == 0 { "scan" } else { "peeks" }, bb[i]),
                                format!("cached: {:?}", ba[i]),
                            ),
                        )
                    } else {
                        if a.current_mode() != b.current_mode() {
                            return StepOut::fail(obs, viol("C13/behaviour/handle_mode".into(), idx, b.current_mode(), a.current_mode()));
                        }
                        self.note_distinguished(*cfg, &bb);
                        StepOut::ok(obs)
                    }
                }
            }
        };
        let ok = matches!(out.obs, Obs::Built(Ok(())));
        self.seq.push((*cfg, ok));
        out
    }
}

thread_local! {
    static LAST_BEHAVIOUR: std::cell::RefCell<Option<(usize, Vec<Obs>)>> = const { std::cell::RefCell::new(None) };
}

impl<'w> Exec13<'w> {
    /// reach probe: consecutive different configurations produce different probe behaviour
    fn note_distinguished(&self, cfg: usize, b: &[Obs]) {
        LAST_BEHAVIOUR.with(|l| {
            let mut l = l.borrow_mut();
            if let Some((pc, pb)) = &*l {
                if *pc != cfg && pb.as_slice() != b && self.seq.last().map(|x| x.0) == Some(*pc) {
                    mark("probe.variant_distinguished_by_probe_inputs");
                }
            }
            *l = Some((cfg, b.to_vec()));
        });
    }
}
