//! C11 — peek_n is a pure preview of what next() would return.
//! Every history is executed three ways on iterators of the same Scanner: SUT (with peeks),
//! twin (same history, peeks deleted) and, per peek, a probe (twin-history prefix, then next × n).

use super::common::*;
use super::*;
use crate::gen::{self, Knobs};
use crate::sut::{self, bump, guarded, mark};
use scnr::{FindMatches, Scanner, ScannerModeSwitcher};
use std::rc::Rc;

pub struct C11;

impl Prop for C11 {
    fn id(&self) -> &'static str {
        "C11"
    }
    fn gen_world(&self, rng: &mut Rng, corpus: &Corpus) -> World {
        if rng.chance(1, 400) {
            let heavy = rng.chance(1, 4);
            if let Some(w) = gen::corpus_world(rng, corpus, 100, 2, heavy) {
                mark("probe.corpus_world");
                return w;
            }
        }
        let k = Knobs {
            configs: (1, 1),
            modes: (1, 4),
            max_transitions: 4,
            patterns: (1, 4),
            lookahead_pct: gen::draw_lookahead_pct(rng),
            inputs: (1, 2),
            input_len: gen_input_len(rng, 36),
            allow_empty_mode: true,
            ..Knobs::default()
        };
        gen::gen_world(rng, &k).world
    }
    fn new_gen<'w>(&self, world: &'w World, rng: &mut Rng) -> Box<dyn Gen + 'w> {
        Box::new(Gen11 { m: GenModel::new(world, 1, 2), len: gen_history_len(rng, 6, 45) })
    }
    fn new_exec<'w>(&self, world: &'w World) -> Box<dyn Exec + 'w> {
        Box::new(Exec11 { world, scanners: vec![], iters: vec![] })
    }
    fn nontrivial(&self, marks: &BTreeSet<&'static str>) -> bool {
        marks.contains("probe.peek_spans_unmatched") || marks.contains("probe.peek_reaches_switch")
    }
    fn rule(&self) -> &'static str {
        "one case = (world, history of next/peek_n/set_mode/set_offset) from (seed, run index); distinct = distinct hash of literal world+history; non-trivial = at least one peek whose window spans a character no pattern matches, or ends at a mode-switching token"
    }
    fn runs(&self) -> (u64, u64) {
        (400_000, 15_000_000)
    }
    fn expected_probes(&self) -> &'static [&'static str] {
        &[
            "probe.peek_spans_unmatched", "probe.peek_reaches_switch", "probe.peek_zero", "probe.peek_all_n",
            "probe.peek_reached_end", "probe.peek_not_found", "probe.peek_in_nonzero_mode", "probe.peek_after_reset",
            "probe.next_after_peek", "probe.peek_n_found_and_switch", "probe.with_offset_mid_history",
        ]
    }
    fn uses_cache(&self) -> bool {
        false
    }
}

struct Gen11<'w> {
    m: GenModel<'w>,
    len: usize,
}

impl<'w> Gen for Gen11<'w> {
    fn next_op(&mut self, rng: &mut Rng) -> Option<Op> {
        if self.m.steps >= self.len {
            return None;
        }
        let w = self.m.world;
        if self.m.live_scanners().is_empty() {
            if self.m.steps > 2 {
                return None;
            }
            return Some(Op::Build { sc: 0, cfg: 0, how: BuildHow::Uncached });
        }
        let its = self.m.live_iters();
        let free = self.m.free_iters();
        if its.is_empty() || (!free.is_empty() && rng.chance(1, 20)) {
            let it = if free.is_empty() { rng.below(self.m.iters.len()) } else { *rng.pick(&free) };
            return Some(Op::NewIter { it, sc: 0, input: rng.below(w.inputs.len()), positions: false, with_offset: None });
        }
        let it = *rng.pick(&its);
        Some(match rng.weighted(&[35, 30, 6, 8]) {
            0 => Op::Next { it },
            1 => Op::PeekN { it, n: gen_peek_n(rng) },
            2 => Op::SetModeIter { it, mode: rng.below(self.m.n_modes(it)) },
            _ => {
                let offset = self.m.pick_boundary(rng, it, None);
                gen_reset(rng, it, offset)
            }
        })
    }
    fn observe(&mut self, op: &Op, obs: &Obs) {
        self.m.observe(op, obs)
    }
}

struct St<'w> {
    sc: Rc<Scanner>,
    cfg: usize,
    input: &'w str,
    n_modes: usize,
    sut: FindMatches<'w>,
    twin: FindMatches<'w>,
    hist: Vec<Op>,
    cursor: usize,
    was_reset: bool,
    peeked: bool,
}

struct Exec11<'w> {
    world: &'w World,
    scanners: Vec<Option<(Rc<Scanner>, usize)>>,
    iters: Vec<Option<St<'w>>>,
}

fn apply_plain(f: &mut FindMatches<'_>, op: &Op) -> Option<Option<Tok>> {
    match op {
        Op::Next { .. } => Some(f.next().map(|m| sut::tok(&m))),
        Op::SetOffset { offset, .. } => {
            f.set_offset(*offset);
            None
        }
        Op::WithOffsetMid { offset, .. } => {
            sut::replace_with(f, |x| x.with_offset(*offset));
            None
        }
        Op::SetModeIter { mode, .. } => {
            f.set_mode(*mode);
            None
        }
        _ => None,
    }
}

impl<'w> Exec for Exec11<'w> {
    fn step(&mut self, idx: usize, op: &Op) -> StepOut {
        match op {
            Op::Build { sc, cfg, .. } => {
                let Some(c) = self.world.configs.get(*cfg) else { return StepOut::skipped() };
                grow(&mut self.scanners, *sc);
                match sut::build(c, BuildHow::Uncached) {
                    Ok(s) => {
                        self.scanners[*sc] = Some((Rc::new(s), *cfg));
                        StepOut::ok(Obs::Built(Ok(())))
                    }
                    Err(Ok(k)) => {
                        self.scanners[*sc] = None;
                        StepOut::ok(Obs::Built(Err(k)))
                    }
                    Err(Err(p)) => {
                        self.scanners[*sc] = None;
                        bump("abort.build_panic");
                        StepOut::abort(Obs::Panic(p))
                    }
                }
            }
            Op::NewIter { it, sc, input, .. } => {
                let Some(Some((s, cfg))) = self.scanners.get(*sc) else { return StepOut::skipped() };
                let Some(inp) = self.world.inputs.get(*input) else { return StepOut::skipped() };
                let inp: &'w str = inp.as_str();
                grow(&mut self.iters, *it);
                self.iters[*it] = Some(St {
                    sc: s.clone(),
                    cfg: *cfg,
                    input: inp,
                    n_modes: self.world.configs[*cfg].len(),
                    sut: s.find_iter(inp),
                    twin: s.find_iter(inp),
                    hist: vec![],
                    cursor: 0,
                    was_reset: false,
                    peeked: false,
                });
                StepOut::ok(Obs::Unit)
            }
            Op::DropIter { it } => {
                if let Some(s) = self.iters.get_mut(*it) {
                    *s = None;
                }
                StepOut::ok(Obs::Unit)
            }
            Op::PeekN { it, n } => {
                let world = self.world;
                let Some(Some(st)) = self.iters.get_mut(*it) else { return StepOut::skipped() };
                // the probe: twin history prefix on a fresh iterator, then next() up to n times
                let cfg = &world.configs[st.cfg];
                let hist = st.hist.clone();
                let (sc, input) = (st.sc.clone(), st.input);
                let probe = guarded(|| {
                    let mut p = sc.find_iter(input);
                    for h in &hist {
                        apply_plain(&mut p, h);
                    }
                    let mut v: Vec<Tok> = Vec::new();
                    let mut switch = None;
                    for _ in 0..*n {
                        let mode_before = p.current_mode();
                        match p.next() {
                            None => break,
                            Some(m) => {
                                let t = sut::tok(&m);
                                v.push(t);
                                if let Some(target) = sut::cfg_transition(cfg, mode_before, t.0) {
                                    switch = Some(target);
                                    break;
                                }
                            }
                        }
                    }
                    (v, switch)
                });
                let got = guarded(|| sut::peek_obs(st.sut.peek_n(*n)));
                let (ev, switch) = match (&got, probe) {
                    (Err(p), Err(_)) => {
                        bump("abort.symmetric_panic");
                        let p = p.clone();
                        self.iters[*it] = None;
                        return StepOut::abort(Obs::Panic(p));
                    }
                    (Ok(_), Err(_)) => {
                        // next() itself panics here: C07's business
                        bump("abort.probe_panic");
                        self.iters[*it] = None;
                        return StepOut::abort(Obs::Unit);
                    }
                    (Err(p), Ok(e)) => {
                        let p = p.clone();
                        self.iters[*it] = None;
                        return StepOut::fail(Obs::Panic(p.clone()), viol("C11/preview/peek_panics".into(), idx, e, p));
                    }
                    (Ok(_), Ok(e)) => e,
                };
                let (k, v) = got.unwrap();
                st.peeked = true;
                // reach probes
                if *n == 0 {
                    mark("probe.peek_zero");
                }
                if st.sut.current_mode() != 0 {
                    mark("probe.peek_in_nonzero_mode");
                }
                if st.was_reset {
                    mark("probe.peek_after_reset");
                }
                let mut pos = st.cursor;
                for t in &ev {
                    if t.1 > pos {
                        mark("probe.peek_spans_unmatched");
                    }
                    pos = t.2;
                }
                if switch.is_some() {
                    mark("probe.peek_reaches_switch");
                }
                let obs = Obs::Peek(k.clone(), v.clone());
                if v != ev {
                    let why = if v.len() < ev.len() && ev[..v.len()] == v[..] {
                        "shorter"
                    } else if v.len() > ev.len() && v[..ev.len()] == ev[..] {
                        "longer"
                    } else {
                        "different"
                    };
                    return StepOut::fail(obs, viol(format!("C11/preview/matches_{}", why), idx, (&ev, switch), (&k, &v)));
                }
                let ok_kind = if *n == 0 {
                    // "all 0 found" and "nothing found" both describe an empty preview
                    k == PeekKind::Matches || k == PeekKind::NotFound
                } else if let Some(target) = switch {
                    if ev.len() == *n {
                        mark("probe.peek_n_found_and_switch");
                    }
                    k == PeekKind::ModeSwitch(target) || (ev.len() == *n && k == PeekKind::Matches)
                } else if ev.len() == *n {
                    mark("probe.peek_all_n");
                    k == PeekKind::Matches
                } else if ev.is_empty() {
                    mark("probe.peek_not_found");
                    k == PeekKind::NotFound
                } else {
                    mark("probe.peek_reached_end");
                    k == PeekKind::ReachedEnd
                };
                if !ok_kind {
                    return StepOut::fail(obs, viol("C11/preview/classification".into(), idx, format!("n={} matches={:?} switch={:?}", n, ev, switch), k));
                }
                // the peek must not have moved the mode
                let (ma, mb) = (st.sut.current_mode(), st.twin.current_mode());
                if ma != mb {
                    return StepOut::fail(obs, viol("C11/purity/mode_after_peek".into(), idx, mb, ma));
                }
                StepOut::ok(obs)
            }
            Op::Next { it } | Op::SetOffset { it, .. } | Op::WithOffsetMid { it, .. } | Op::SetModeIter { it, .. } => {
                let Some(Some(st)) = self.iters.get_mut(*it) else { return StepOut::skipped() };
                match op {
                    Op::SetOffset { offset, .. } | Op::WithOffsetMid { offset, .. } => {
                        if matches!(op, Op::WithOffsetMid { .. }) {
                            mark("probe.with_offset_mid_history");
                        }
                        if *offset > st.input.len() || !st.input.is_char_boundary(*offset) {
                            return StepOut::skipped();
                        }
                        st.cursor = *offset;
                        st.was_reset = true;
                    }
                    Op::SetModeIter { mode, .. } => {
                        if *mode >= st.n_modes {
                            return StepOut::skipped();
                        }
                    }
                    _ => {}
                }
                let a = guarded(|| apply_plain(&mut st.sut, op));
                let b = guarded(|| apply_plain(&mut st.twin, op));
                st.hist.push(op.clone());
                match (a, b) {
                    (Err(p), Err(_)) => {
                        bump("abort.symmetric_panic");
                        self.iters[*it] = None;
                        StepOut::abort(Obs::Panic(p))
                    }
                    (Err(p), Ok(e)) => {
                        self.iters[*it] = None;
                        StepOut::fail(Obs::Panic(p.clone()), viol("C11/purity/panic_only_with_peeks".into(), idx, e, p))
                    }
                    (Ok(g), Err(p)) => {
                        self.iters[*it] = None;
                        StepOut::fail(Obs::Unit, viol("C11/purity/panic_only_without_peeks".into(), idx, p, g))
                    }
                    (Ok(g), Ok(e)) => {
                        let obs = match g {
                            Some(t) => Obs::Tok(t),
                            None => Obs::Unit,
                        };
                        if g != e {
                            return StepOut::fail(obs, viol("C11/purity/next".into(), idx, e, g));
                        }
                        if let Some(Some(t)) = g {
                            st.cursor = t.2;
                            if st.peeked {
                                mark("probe.next_after_peek");
                            }
                        }
                        let (ma, mb) = (st.sut.current_mode(), st.twin.current_mode());
                        if ma != mb {
                            return StepOut::fail(obs, viol("C11/purity/mode".into(), idx, mb, ma));
                        }
                        StepOut::ok(obs)
                    }
                }
            }
            _ => StepOut::skipped(),
        }
    }
}
