//! C18 — the DOT export is a faithful picture of the compiled automata; an unwritable target
//! folder yields an error, not a panic.
//! Per world every folder fault kind is applied in turn (finite list), each followed by a heal
//! and a retry. Faults are produced by the real kernel (tmpfs in a private mount namespace,
//! unprivileged uid) — see bin/check_c18.

use super::common::*;
use super::*;
use crate::gen::{self, Knobs};
use crate::sut::{self, bump, guarded, mark};
use scnr::verif::{DfaDump, ScannerDump};
use scnr::Scanner;
use std::collections::{BTreeMap, BTreeSet};
use std::path::{Path, PathBuf};

pub struct C18;

pub const FAULTS: &[FolderFault] = &[
    FolderFault::Missing,
    FolderFault::NotADir,
    FolderFault::ReadOnlyPerm,
    FolderFault::ReadOnlyFs,
    FolderFault::NameIsDir,
    FolderFault::StaleFile,
    FolderFault::TargetFileReadOnly,
];
// FolderFault::Enospc is NOT part of the per-world enumeration: dot-writer unwrap()s write errors
// and panics again while unwinding (in Drop), which aborts the process and cannot be caught. It is
// observed once per check in a child process (`simcheck enospc-probe`), outside the verdict.

impl Prop for C18 {
    fn id(&self) -> &'static str {
        "C18"
    }
    fn gen_world(&self, rng: &mut Rng, corpus: &Corpus) -> World {
        if rng.chance(1, 60) {
            let heavy = rng.chance(1, 6);
            if let Some(w) = gen::corpus_world(rng, corpus, 0, 0, heavy) {
                mark("probe.corpus_world");
                return w;
            }
        }
        let k = Knobs {
            configs: (1, 1),
            modes: (1, 4),
            patterns: (1, 4),
            lookahead_pct: *rng.pick(&[0, 25, 50, 75]),
            inputs: (0, 0),
            fancy_names: true,
            ..Knobs::default()
        };
        let mut gw = gen::gen_world(rng, &k);
        // class shapes whose labels need escaping
        if rng.chance(1, 2) {
            let used: Vec<usize> = gw.world.configs[0][0].patterns.iter().map(|p| p.token_type).collect();
            let mut t = 62;
            while used.iter().any(|x| gen::same_type(*x, t)) {
                t += 1;
            }
            let pat = rng
                .pick(&["[\"\\\\]+", "\\u{22}[^\\u{22}]*\\u{22}", "[\\n\\t ]", "[a-c&&[^b]]", "[\\[\\]]", "\u{e9}[\u{20ac}-\u{20af}]", "[[a-c][x-z]]", "\\\\\"", "[\\\\n]", "[\\\\\"]", "[^\\\"]+", "\\\"", "[\"\\\\]x"])
                .to_string();
            gw.world.configs[0][0].patterns.push(PatternSpec { pattern: pat, token_type: t, lookahead: None });
        }
        gw.world
    }
    fn new_gen<'w>(&self, world: &'w World, rng: &mut Rng) -> Box<dyn Gen + 'w> {
        // every fault kind, in a random order
        let mut order: Vec<FolderFault> = FAULTS.to_vec();
        for i in (1..order.len()).rev() {
            let j = rng.below(i + 1);
            order.swap(i, j);
        }
        let mut script: Vec<Op> = vec![Op::Build { sc: 0, cfg: 0, how: BuildHow::Uncached }];
        let flavour = *rng.pick(&[0u8, 0, 0, 0, 0, 0, 1, 2, 3, 3]);
        if flavour != 0 {
            script.push(Op::SetFolderName { flavour });
        }
        let prefixes = ["P", "out", "Test0", "with space", "pr\u{e4}fix", "a.b"];
        let mut prefix = rng.pick(&prefixes).to_string();
        script.push(Op::ExportDot { sc: 0, prefix: prefix.clone() });
        if rng.chance(1, 3) {
            // a second export into the same healthy folder overwrites the files of the first
            script.push(Op::ExportDot { sc: 0, prefix: prefix.clone() });
        }
        for k in order {
            if rng.chance(1, 4) {
                prefix = rng.pick(&prefixes).to_string();
            }
            script.push(Op::BreakFolder { kind: k, victim: rng.below(8) });
            script.push(Op::ExportDot { sc: 0, prefix: prefix.clone() });
            if rng.chance(1, 5) {
                // the same fault hit twice
                script.push(Op::ExportDot { sc: 0, prefix: prefix.clone() });
            }
            script.push(Op::HealFolder);
            script.push(Op::ExportDot { sc: 0, prefix: prefix.clone() });
        }
        let _ = world;
        script.reverse();
        Box::new(Gen18 { script })
    }
    fn new_exec<'w>(&self, world: &'w World) -> Box<dyn Exec + 'w> {
        Box::new(Exec18::new(world))
    }
    fn nontrivial(&self, marks: &BTreeSet<&'static str>) -> bool {
        marks.contains("probe.lookahead_cluster_verified") && marks.contains("probe.all_verdict_fault_kinds_fired")
    }
    fn rule(&self) -> &'static str {
        "one case = (configuration that builds, export history in which EVERY folder fault kind is applied in turn, each followed by heal and retry); distinct = distinct hash of literal world+history; non-trivial = at least one lookahead cluster verified against the automaton dump AND every verdict-bearing fault kind (missing, not_a_dir, read_only_perm, read_only_fs, name_is_dir, stale_file) actually fired"
    }
    fn runs(&self) -> (u64, u64) {
        (15_000, 600_000)
    }
    fn expected_probes(&self) -> &'static [&'static str] {
        &[
            "probe.lookahead_cluster_verified", "probe.all_verdict_fault_kinds_fired", "probe.files_verified", "probe.multi_mode_export",
            "probe.label_with_escapes", "probe.fault_on_non_last_mode_file", "probe.export_over_stale_file", "probe.export_after_heal", "probe.fancy_mode_name", "probe.non_utf8_folder_name",
            "fault.folder_missing", "fault.folder_not_a_dir", "fault.folder_read_only_perm", "fault.folder_read_only_fs",
            "fault.folder_name_is_dir", "fault.folder_stale_file", "fault.folder_target_file_read_only",
        ]
    }
    fn uses_cache(&self) -> bool {
        false
    }
    fn assumptions(&self) -> Vec<String> {
        vec![
            "hook H2 (verif::dump) copies the compiled automata faithfully".to_string(),
            "Graphviz is not installed: well-formed = accepted by the simulator's DOT reader (digraph, balanced braces, ';'-terminated statements, DOT ids / quoted strings with \\\" escapes, nodes declared before edges use them)".to_string(),
            "folder faults come from the real kernel: tmpfs in a private mount namespace, worker runs as uid 65534; ENOSPC is observation-only (outside the stated fault domain)".to_string(),
        ]
    }
}

struct Gen18 {
    script: Vec<Op>,
}
impl Gen for Gen18 {
    fn next_op(&mut self, _rng: &mut Rng) -> Option<Op> {
        self.script.pop()
    }
    fn observe(&mut self, _op: &Op, _obs: &Obs) {}
}

// ---------------------------------------------------------------------------------------------
// DOT reader (simulator-owned reference model of "well-formed")
// ---------------------------------------------------------------------------------------------

#[derive(Debug, Clone, PartialEq)]
enum T {
    Id(String),
    Str(String),
    Sym(char),
    Arrow,
}

fn lex(s: &str) -> Result<Vec<T>, String> {
    let cs: Vec<char> = s.chars().collect();
    let mut i = 0;
    let mut out = Vec::new();
    while i < cs.len() {
        let c = cs[i];
        if c.is_whitespace() {
            i += 1;
        } else if c == '"' {
            // Graphviz: inside quotes a backslash and the following character form a pair
            let mut v = String::new();
            i += 1;
            loop {
                if i >= cs.len() {
                    return Err("unterminated quoted string".into());
                }
                if cs[i] == '\\' {
                    if i + 1 >= cs.len() {
                        return Err("unterminated quoted string".into());
                    }
                    if cs[i + 1] == '"' {
                        v.push('"');
                    } else {
                        v.push('\\');
                        v.push(cs[i + 1]);
                    }
                    i += 2;
                } else if cs[i] == '"' {
                    i += 1;
                    break;
                } else {
                    v.push(cs[i]);
                    i += 1;
                }
            }
            out.push(T::Str(v));
        } else if c == '-' && i + 1 < cs.len() && cs[i + 1] == '>' {
            out.push(T::Arrow);
            i += 2;
        } else if "{}[];,=".contains(c) {
            out.push(T::Sym(c));
            i += 1;
        } else if c.is_alphanumeric() || c == '_' || c == '.' || c == '-' {
            let mut v = String::new();
            v.push(c);
            i += 1;
            while i < cs.len() && (cs[i].is_alphanumeric() || cs[i] == '_' || cs[i] == '.') {
                v.push(cs[i]);
                i += 1;
            }
            out.push(T::Id(v));
        } else {
            return Err(format!("unexpected character {:?} outside a quoted string", c));
        }
    }
    Ok(out)
}

#[derive(Debug, Default, Clone)]
pub struct Graph {
    pub attrs: BTreeMap<String, String>,
    pub nodes: Vec<(String, BTreeMap<String, String>)>,
    pub edges: Vec<(String, String, BTreeMap<String, String>)>,
    pub clusters: Vec<(String, Graph)>,
}

struct P {
    t: Vec<T>,
    i: usize,
    declared: BTreeSet<String>,
}

impl P {
    fn peek(&self) -> Option<&T> {
        self.t.get(self.i)
    }
    fn next(&mut self) -> Option<T> {
        let x = self.t.get(self.i).cloned();
        self.i += 1;
        x
    }
    fn expect_sym(&mut self, c: char) -> Result<(), String> {
        match self.next() {
            Some(T::Sym(x)) if x == c => Ok(()),
            other => Err(format!("expected '{}', found {:?}", c, other)),
        }
    }
    fn id(&mut self) -> Result<String, String> {
        match self.next() {
            Some(T::Id(s)) | Some(T::Str(s)) => Ok(s),
            other => Err(format!("expected an id, found {:?}", other)),
        }
    }
    fn attrs(&mut self) -> Result<BTreeMap<String, String>, String> {
        let mut m = BTreeMap::new();
        if self.peek() != Some(&T::Sym('[')) {
            return Ok(m);
        }
        self.expect_sym('[')?;
        loop {
            if self.peek() == Some(&T::Sym(']')) {
                self.next();
                break;
            }
            let k = self.id()?;
            self.expect_sym('=')?;
            let v = self.id()?;
            m.insert(k, v);
            match self.peek() {
                Some(T::Sym(',')) | Some(T::Sym(';')) => {
                    self.next();
                }
                Some(T::Sym(']')) => {}
                other => return Err(format!("expected ',' or ']' in attribute list, found {:?}", other)),
            }
        }
        Ok(m)
    }
    fn body(&mut self) -> Result<Graph, String> {
        let mut g = Graph::default();
        self.expect_sym('{')?;
        loop {
            match self.peek().cloned() {
                None => return Err("unbalanced braces: missing '}'".into()),
                Some(T::Sym('}')) => {
                    self.next();
                    return Ok(g);
                }
                Some(T::Id(k)) if k == "subgraph" => {
                    self.next();
                    let name = self.id()?;
                    let sub = self.body()?;
                    if self.peek() == Some(&T::Sym(';')) {
                        self.next();
                    }
                    g.clusters.push((name, sub));
                }
                Some(T::Id(_)) | Some(T::Str(_)) => {
                    let a = self.id()?;
                    match self.peek() {
                        Some(T::Sym('=')) => {
                            self.next();
                            let v = self.id()?;
                            g.attrs.insert(a, v);
                        }
                        Some(T::Arrow) => {
                            self.next();
                            let b = self.id()?;
                            let at = self.attrs()?;
                            for n in [&a, &b] {
                                if !self.declared.contains(n) {
                                    return Err(format!("edge uses node {:?} before it is declared", n));
                                }
                            }
                            g.edges.push((a, b, at));
                        }
                        _ => {
                            let at = self.attrs()?;
                            self.declared.insert(a.clone());
                            g.nodes.push((a, at));
                        }
                    }
                    self.expect_sym(';').map_err(|e| format!("statement not terminated: {}", e))?;
                }
                Some(other) => return Err(format!("unexpected token {:?}", other)),
            }
        }
    }
}

pub fn parse_dot(s: &str) -> Result<Graph, String> {
    let t = lex(s)?;
    let mut p = P { t, i: 0, declared: BTreeSet::new() };
    match p.next() {
        Some(T::Id(k)) if k == "digraph" => {}
        other => return Err(format!("expected 'digraph', found {:?}", other)),
    }
    if let Some(T::Id(_)) | Some(T::Str(_)) = p.peek() {
        p.next();
    }
    let g = p.body()?;
    if p.i != p.t.len() {
        return Err("trailing content after the closing brace".into());
    }
    Ok(g)
}

/// Words of a label: maximal runs of letters, digits and '#'.
fn words(label: &str) -> Vec<String> {
    label
        .split(|c: char| !(c.is_alphanumeric() || c == '#'))
        .filter(|w| !w.is_empty())
        .map(|w| w.to_string())
        .collect()
}

fn is_token_type_word(w: &str) -> Option<u32> {
    w.strip_prefix('T').and_then(|d| if !d.is_empty() && d.chars().all(|c| c.is_ascii_digit()) { d.parse().ok() } else { None })
}

/// The class id of an edge label: the number behind the last "C#".
fn class_id_of(label: &str) -> Option<u32> {
    let i = label.rfind("C#")?;
    let digits: String = label[i + 2..].chars().take_while(|c| c.is_ascii_digit()).collect();
    digits.parse().ok()
}

/// Compare the nodes/edges of one (sub)graph with one automaton. Node *ids* are opaque: which
/// state a node pictures is read from its label (the state number is the first numeric word), so
/// any naming scheme for nodes and any label layout that shows the state number, and `T<type>`
/// for accepting states, is accepted. Colours and shapes are not judged.
fn compare_automaton(g: &Graph, dfa: &DfaDump, _prefix: &str, n_classes: usize) -> Result<(), (String, String)> {
    let n = dfa.states.len();
    let mut node_state: BTreeMap<String, usize> = BTreeMap::new();
    let mut seen_states: BTreeSet<usize> = BTreeSet::new();
    for (id, at) in &g.nodes {
        let label = at.get("label").cloned().unwrap_or_else(|| id.clone());
        let ws = words(&label);
        let Some(state) = ws.iter().find_map(|w| w.parse::<usize>().ok()) else {
            return Err(("node_without_state_number".into(), format!("node {:?} label {:?}", id, label)));
        };
        if node_state.insert(id.clone(), state).is_some() {
            return Err(("node_declared_twice".into(), format!("{:?}", id)));
        }
        if !seen_states.insert(state) {
            return Err(("state_pictured_twice".into(), format!("state {} (node {:?})", state, id)));
        }
        if state >= n {
            return Err(("node_set".into(), format!("node {:?} pictures state {} but the automaton has {} states", id, state, n)));
        }
        let shown: Vec<u32> = ws.iter().filter_map(|w| is_token_type_word(w)).collect();
        match dfa.accepting[state] {
            Some(t) => {
                if shown != vec![t] {
                    return Err(("accepting_label".into(), format!("state {} accepts token type {}: the label {:?} shows token types {:?}", state, t, label, shown)));
                }
            }
            None => {
                if !shown.is_empty() {
                    return Err(("plain_label".into(), format!("state {} is not accepting but its label {:?} shows token types {:?}", state, label, shown)));
                }
            }
        }
    }
    if seen_states.len() != n {
        let missing: Vec<usize> = (0..n).filter(|i| !seen_states.contains(i)).collect();
        return Err(("node_set".into(), format!("states {:?} of the automaton have no node", missing)));
    }
    let mut want: Vec<(usize, usize, u32)> = Vec::new();
    for (from, ts) in dfa.states.iter().enumerate() {
        for (cc, to) in ts {
            want.push((from, *to, *cc));
        }
    }
    want.sort();
    let mut got: Vec<(usize, usize, u32)> = Vec::new();
    for (a, b, at) in &g.edges {
        let label = at.get("label").cloned().unwrap_or_default();
        match (node_state.get(a), node_state.get(b), class_id_of(&label)) {
            (Some(x), Some(y), Some(c)) => {
                if c as usize >= n_classes {
                    return Err(("edge_class_unregistered".into(), format!("edge {}->{} refers to class {} but only {} are registered", a, b, c, n_classes)));
                }
                if label.contains('"') || label.contains('\\') {
                    mark("probe.label_with_escapes");
                }
                got.push((*x, *y, c))
            }
            _ => return Err(("edge_unreadable".into(), format!("edge {:?} -> {:?} label {:?} (endpoints must be nodes of the same (sub)graph, the label must carry C#<class id>)", a, b, label))),
        }
    }
    got.sort();
    if want != got {
        return Err(("edge_multiset".into(), format!("automaton (from,to,class) {:?}, file {:?}", want, got)));
    }
    Ok(())
}

/// Compare one file with the dump of its mode.
pub fn compare_mode(text: &str, mode: &scnr::verif::ModeDump, n_classes: usize) -> Result<(), (String, String)> {
    let g = parse_dot(text).map_err(|e| ("not_well_formed".to_string(), e))?;
    compare_automaton(&g, &mode.dfa, "", n_classes)?;
    if g.clusters.len() != mode.dfa.lookaheads.len() {
        return Err(("cluster_count".into(), format!("{} lookaheads, {} clusters", mode.dfa.lookaheads.len(), g.clusters.len())));
    }
    let mut seen = BTreeSet::new();
    for (tt, positive, la) in &mode.dfa.lookaheads {
        let found: Vec<&(String, Graph)> = g
            .clusters
            .iter()
            .filter(|(_, sub)| sub.attrs.get("label").map(|l| words(l).iter().any(|w| is_token_type_word(w) == Some(*tt))).unwrap_or(false))
            .collect();
        if found.len() != 1 {
            return Err(("cluster_for_token_type".into(), format!("want exactly one cluster labelled for token type {}, found {}", tt, found.len())));
        }
        let (name, sub) = found[0];
        seen.insert(name.clone());
        let label = sub.attrs.get("label").cloned().unwrap_or_default().to_lowercase();
        let ws = words(&label);
        let (pos, neg) = (ws.iter().any(|w| w.starts_with("pos")), ws.iter().any(|w| w.starts_with("neg")));
        if pos == neg || pos != *positive {
            return Err(("cluster_polarity".into(), format!("lookahead of token type {} is {}, cluster label {:?}", tt, if *positive { "positive" } else { "negative" }, label)));
        }
        compare_automaton(sub, la, &format!("{}_", tt), n_classes).map_err(|(k, d)| (format!("cluster_{}", k), d))?;
        mark("probe.lookahead_cluster_verified");
    }
    if seen.len() != g.clusters.len() {
        return Err(("cluster_names_not_distinct".into(), format!("{:?}", g.clusters.iter().map(|c| &c.0).collect::<Vec<_>>())));
    }
    Ok(())
}

// ---------------------------------------------------------------------------------------------
// Folder model + executor
// ---------------------------------------------------------------------------------------------

struct Exec18<'w> {
    world: &'w World,
    scanners: Vec<Option<(Scanner, ScannerDump)>>,
    /// the healthy working folder
    home: PathBuf,
    ro: Option<PathBuf>,
    full: Option<PathBuf>,
    root: bool,
    state: Option<FolderFault>,
    may_exist: BTreeSet<String>,
    fired: BTreeSet<&'static str>,
    healed_once: bool,
    victim: usize,
}

fn is_root() -> bool {
    std::fs::read_to_string("/proc/self/status")
        .ok()
        .and_then(|s| s.lines().find(|l| l.starts_with("Uid:")).map(|l| l.split_whitespace().nth(2) == Some("0")))
        .unwrap_or(true)
}

fn set_mode(p: &Path, mode: u32) {
    use std::os::unix::fs::PermissionsExt;
    let _ = std::fs::set_permissions(p, std::fs::Permissions::from_mode(mode));
}

impl<'w> Exec18<'w> {
    fn new(world: &'w World) -> Self {
        let rw = std::env::var("C18_RW").unwrap_or_else(|_| format!("{}/.work/c18-plain", std::env::var("VERIF_ROOT").unwrap_or_else(|_| "/verif".into())));
        let home = PathBuf::from(rw).join(format!("p{}", std::process::id())).join("t");
        let ro = std::env::var("C18_RO").ok().map(PathBuf::from).filter(|p| p.is_dir());
        let full = std::env::var("C18_FULL").ok().map(PathBuf::from).filter(|p| p.is_dir());
        let mut e = Exec18 { world, scanners: vec![], home, ro, full, root: is_root(), state: None, may_exist: BTreeSet::new(), fired: BTreeSet::new(), healed_once: false, victim: 0 };
        e.reset_home();
        e
    }
    fn reset_home(&mut self) {
        if let Some(parent) = self.home.parent() {
            let _ = std::fs::create_dir_all(parent);
        }
        set_mode(&self.home, 0o755);
        if self.home.is_dir() {
            let _ = std::fs::remove_dir_all(&self.home);
        } else {
            let _ = std::fs::remove_file(&self.home);
        }
        std::fs::create_dir_all(&self.home).expect("harness: cannot create the C18 working folder");
        self.may_exist.clear();
    }
    /// the folder handed to the export, given the fault state
    fn target(&self) -> Option<PathBuf> {
        match self.state {
            Some(FolderFault::ReadOnlyFs) => self.ro.clone(),
            Some(FolderFault::Enospc) => self.full.clone(),
            Some(FolderFault::ReadOnlyPerm) if self.root => Some(PathBuf::from("/sys/kernel")),
            _ => Some(self.home.clone()),
        }
    }
    fn file_names(dump: &ScannerDump, prefix: &str) -> Vec<String> {
        dump.modes.iter().map(|m| format!("{}_{}.dot", prefix, m.name)).collect()
    }
}

impl<'w> Drop for Exec18<'w> {
    fn drop(&mut self) {
        set_mode(&self.home, 0o755);
        if let Some(p) = self.home.parent() {
            let _ = std::fs::remove_dir_all(p);
        }
    }
}

fn fault_name(k: FolderFault) -> &'static str {
    match k {
        FolderFault::Missing => "missing",
        FolderFault::NotADir => "not_a_dir",
        FolderFault::ReadOnlyPerm => "read_only_perm",
        FolderFault::ReadOnlyFs => "read_only_fs",
        FolderFault::NameIsDir => "name_is_dir",
        FolderFault::StaleFile => "stale_file",
        FolderFault::Enospc => "enospc",
        FolderFault::TargetFileReadOnly => "target_file_read_only",
    }
}

impl<'w> Exec for Exec18<'w> {
    fn step(&mut self, idx: usize, op: &Op) -> StepOut {
        match op {
            Op::Build { sc, cfg, .. } => {
                let Some(c) = self.world.configs.get(*cfg) else { return StepOut::skipped() };
                // mode names become file names: they must be distinct and free of '/'
                let names: BTreeSet<&str> = c.iter().map(|m| m.name.as_str()).collect();
                if names.len() != c.len() || c.iter().any(|m| m.name.contains('/') || m.name.contains('\0')) {
                    return StepOut::skipped();
                }
                grow(&mut self.scanners, *sc);
                match sut::build(c, BuildHow::Uncached) {
                    Ok(s) => {
                        let d = scnr::verif::dump(&s);
                        if d.modes.len() > 1 {
                            mark("probe.multi_mode_export");
                        }
                        if c.iter().any(|m| !m.name.chars().all(|ch| ch.is_ascii_alphanumeric() || ch == '_')) {
                            mark("probe.fancy_mode_name");
                        }
                        self.scanners[*sc] = Some((s, d));
                        StepOut::ok(Obs::Built(Ok(())))
                    }
                    Err(Ok(k)) => {
                        self.scanners[*sc] = None;
                        StepOut::ok(Obs::Built(Err(k)))
                    }
                    Err(Err(p)) => {
                        self.scanners[*sc] = None;
                        bump("abort.build_panic");
                        StepOut::abort(Obs::Panic(p))
                    }
                }
            }
            Op::BreakFolder { kind, victim } => {
                // a fault is applied to a healed folder
                self.reset_home();
                self.state = Some(*kind);
                self.victim = *victim;
                match kind {
                    FolderFault::Missing => {
                        let _ = std::fs::remove_dir_all(&self.home);
                    }
                    FolderFault::NotADir => {
                        let _ = std::fs::remove_dir_all(&self.home);
                        std::fs::write(&self.home, b"i am a file").expect("harness: write");
                    }
                    FolderFault::ReadOnlyPerm => {
                        if !self.root {
                            set_mode(&self.home, 0o555);
                        }
                    }
                    // applied at export time (they depend on the file names) or are other folders
                    FolderFault::NameIsDir | FolderFault::StaleFile | FolderFault::ReadOnlyFs | FolderFault::Enospc | FolderFault::TargetFileReadOnly => {}
                }
                StepOut::ok(Obs::Unit)
            }
            Op::SetFolderName { flavour } => {
                use std::os::unix::ffi::OsStrExt;
                set_mode(&self.home, 0o755);
                let _ = std::fs::remove_dir_all(&self.home);
                let base = self.home.parent().unwrap().to_path_buf();
                let name: &[u8] = match flavour {
                    1 => "t\u{e4}\u{20ac}".as_bytes(),
                    2 => b"t with space",
                    3 => b"t\xff\xfe",
                    _ => b"t",
                };
                if *flavour == 3 {
                    mark("probe.non_utf8_folder_name");
                }
                self.home = base.join(std::ffi::OsStr::from_bytes(name));
                self.state = None;
                self.reset_home();
                StepOut::ok(Obs::Unit)
            }
            Op::HealFolder => {
                self.state = None;
                self.reset_home();
                self.healed_once = true;
                StepOut::ok(Obs::Unit)
            }
            Op::ExportDot { sc, prefix } => {
                if prefix.contains('/') || prefix.contains('\0') {
                    return StepOut::skipped();
                }
                let Some(Some((s, dump))) = self.scanners.get(*sc) else { return StepOut::skipped() };
                let names = Self::file_names(dump, prefix);
                let Some(target) = self.target() else {
                    bump("probe.fault_kind_unavailable_in_this_environment");
                    return StepOut::skipped();
                };
                // faults that depend on the file names
                match self.state {
                    Some(FolderFault::NameIsDir) => {
                        let victim = &names[self.victim % names.len()];
                        if self.victim % names.len() + 1 < names.len() {
                            mark("probe.fault_on_non_last_mode_file");
                        }
                        let _ = std::fs::create_dir_all(self.home.join(victim));
                    }
                    Some(FolderFault::TargetFileReadOnly) => {
                        if self.root {
                            // permissions do not bind root: the fault cannot be produced here
                            bump("probe.fault_kind_unavailable_in_this_environment");
                            return StepOut::skipped();
                        }
                        let victim = self.home.join(&names[self.victim % names.len()]);
                        let _ = std::fs::write(&victim, b"read-only leftover");
                        set_mode(&victim, 0o444);
                    }
                    Some(FolderFault::StaleFile) => {
                        for n in &names {
                            let _ = std::fs::write(self.home.join(n), vec![b'#'; 70_000]);
                        }
                        mark("probe.export_over_stale_file");
                    }
                    _ => {}
                }
                if let Some(k) = self.state {
                    let name = match k {
                        FolderFault::Missing => "fault.folder_missing",
                        FolderFault::NotADir => "fault.folder_not_a_dir",
                        FolderFault::ReadOnlyPerm => "fault.folder_read_only_perm",
                        FolderFault::ReadOnlyFs => "fault.folder_read_only_fs",
                        FolderFault::NameIsDir => "fault.folder_name_is_dir",
                        FolderFault::StaleFile => "fault.folder_stale_file",
                        FolderFault::Enospc => "fault.folder_enospc",
                        FolderFault::TargetFileReadOnly => "fault.folder_target_file_read_only",
                    };
                    bump(name);
                    self.fired.insert(name);
                    if self.fired.len() >= 6 && ["fault.folder_missing", "fault.folder_not_a_dir", "fault.folder_read_only_perm", "fault.folder_read_only_fs", "fault.folder_name_is_dir", "fault.folder_stale_file"].iter().all(|f| self.fired.contains(f)) {
                        mark("probe.all_verdict_fault_kinds_fired");
                    }
                }
                let r = guarded(|| s.generate_compiled_automata_as_dot(prefix, &target));
                for n in &names {
                    self.may_exist.insert(n.clone());
                }
                let healthy = matches!(self.state, None | Some(FolderFault::StaleFile));
                if self.state == Some(FolderFault::Enospc) {
                    // observation only: outside the stated fault domain
                    match &r {
                        Ok(Ok(())) => bump("observe.enospc_returned_ok"),
                        Ok(Err(_)) => bump("observe.enospc_returned_err"),
                        Err(_) => bump("observe.enospc_panicked"),
                    }
                    // best effort clean-up of the full file system
                    for n in &names {
                        let _ = std::fs::remove_file(target.join(n));
                    }
                    return StepOut::ok(Obs::Export(match r {
                        Ok(Ok(())) => Ok(()),
                        Ok(Err(e)) => Err(sut::err_kind(&e)),
                        Err(_) => Err("panic(observation only)".into()),
                    }));
                }
                // A directory or a read-only file where a target FILE should go does not make the
                // FOLDER unwritable: an implementation may fail, or may replace the obstacle. Err is
                // accepted; Ok is accepted if the files then are what a healthy export leaves; a
                // panic never is.
                let soft = matches!(self.state, Some(FolderFault::NameIsDir) | Some(FolderFault::TargetFileReadOnly));
                if !healthy {
                    let k = fault_name(self.state.unwrap());
                    match &r {
                        Ok(Err(e)) => return StepOut::ok(Obs::Export(Err(sut::err_kind(e)))),
                        Ok(Ok(())) if !soft => return StepOut::fail(Obs::Export(Ok(())), viol(format!("C18/fault/{}/returned_ok", k), idx, "Err(..)", "Ok(())")),
                        Ok(Ok(())) => bump("probe.obstacle_replaced_by_export"),
                        Err(p) => return StepOut::fail(Obs::Panic(p.clone()), viol(format!("C18/fault/{}/panic", k), idx, "Err(..), not a panic", p)),
                    }
                }
                // healthy folder (incl. after heal, incl. over stale longer files)
                if self.healed_once {
                    mark("probe.export_after_heal");
                }
                match r {
                    Err(p) => StepOut::fail(Obs::Panic(p.clone()), viol(format!("C18/healthy/panic/{}", sut::panic_class(&p)), idx, "Ok(())", p)),
                    Ok(Err(e)) => StepOut::fail(Obs::Export(Err(sut::err_kind(&e))), viol("C18/healthy/returned_err".into(), idx, "Ok(())", format!("{}", e))),
                    Ok(Ok(())) => {
                        // exactly the expected files
                        let mut listing: Vec<String> = match std::fs::read_dir(&self.home) {
                            Ok(rd) => rd.filter_map(|e| e.ok()).map(|e| e.file_name().to_string_lossy().to_string()).collect(),
                            Err(e) => return StepOut::fail(Obs::Export(Ok(())), viol("C18/healthy/folder_unreadable".into(), idx, "folder", e.to_string())),
                        };
                        listing.sort();
                        for f in &listing {
                            if !self.may_exist.contains(f) {
                                // the statement asks for one file per mode; it does not forbid further
                                // files, so this is counted, not judged
                                bump("observe.extra_file_in_target_folder");
                            }
                        }
                        for (mi, n) in names.iter().enumerate() {
                            let path = self.home.join(n);
                            let text = match std::fs::read(&path) {
                                Ok(b) => match String::from_utf8(b) {
                                    Ok(s) => s,
                                    Err(_) => return StepOut::fail(Obs::Export(Ok(())), viol("C18/file/not_utf8".into(), idx, "text", n)),
                                },
                                Err(e) => return StepOut::fail(Obs::Export(Ok(())), viol("C18/files/missing_file".into(), idx, format!("file {:?}", n), e.to_string())),
                            };
                            if let Err((kind, detail)) = compare_mode(&text, &dump.modes[mi], dump.classes.len()) {
                                return StepOut::fail(Obs::Export(Ok(())), viol(format!("C18/file/{}", kind), idx, format!("file {:?} pictures mode {} ({:?})", n, mi, dump.modes[mi].name), detail));
                            }
                            bump("probe.files_verified");
                        }
                        StepOut::ok(Obs::Export(Ok(())))
                    }
                }
            }
            _ => StepOut::skipped(),
        }
    }
}
