//! C10 — scanning resumes correctly from any offset; advance_to after peek.
//! Oracle: a shadow iterator of the *same Scanner* over the substring input[o..] (where no
//! offset exists), shifted by o.

use super::common::*;
use super::*;
use crate::gen::{self, Knobs};
use crate::sut::{self, bump, guarded, mark, It};
use scnr::{FindMatches, Scanner, ScannerModeSwitcher};
use std::rc::Rc;

pub struct C10;

impl Prop for C10 {
    fn id(&self) -> &'static str {
        "C10"
    }
    fn gen_world(&self, rng: &mut Rng, corpus: &Corpus) -> World {
        if rng.chance(1, 400) {
            let heavy = rng.chance(1, 4);
            if let Some(w) = gen::corpus_world(rng, corpus, 100, 2, heavy) {
                mark("probe.corpus_world");
                return w;
            }
        }
        let k = Knobs {
            configs: (1, 1),
            modes: (1, 4),
            max_transitions: 4,
            patterns: (1, 4),
            lookahead_pct: gen::draw_lookahead_pct(rng),
            inputs: (1, 2),
            input_len: gen_input_len(rng, 40),
            allow_empty_mode: true,
            newline_rich: false,
            ..Knobs::default()
        };
        gen::gen_world(rng, &k).world
    }
    fn new_gen<'w>(&self, world: &'w World, rng: &mut Rng) -> Box<dyn Gen + 'w> {
        Box::new(Gen10 { m: GenModel::new(world, 1, 2), len: gen_history_len(rng, 8, 50) })
    }
    fn new_exec<'w>(&self, world: &'w World) -> Box<dyn Exec + 'w> {
        Box::new(Exec10 { world, scanners: vec![], iters: vec![] })
    }
    fn nontrivial(&self, marks: &BTreeSet<&'static str>) -> bool {
        marks.contains("probe.token_after_nonzero_reset")
    }
    fn rule(&self) -> &'static str {
        "one case = (world, history of next/peek_n/advance_to/set_offset/with_offset/set_mode) from (seed, run index); distinct = distinct hash of literal world+history; non-trivial = at least one reset to a non-zero offset followed by at least one token"
    }
    fn runs(&self) -> (u64, u64) {
        (400_000, 15_000_000)
    }
    fn expected_probes(&self) -> &'static [&'static str] {
        &[
            "probe.token_after_nonzero_reset", "probe.token_after_advance", "probe.lookahead_token_after_reset",
            "probe.peek_after_reset", "probe.advance_after_reset", "probe.reset_in_nonzero_mode",
            "fault.reset_back", "fault.reset_fwd", "fault.reset_zero", "fault.reset_len", "fault.reset_beyond",
            "fault.skip_ahead", "fault.mode_override", "probe.positions_wrapped_iterator", "probe.with_offset_mid_history",
        ]
    }
    fn uses_cache(&self) -> bool {
        false
    }
}

struct Gen10<'w> {
    m: GenModel<'w>,
    len: usize,
}

/// indices of the peeked matches whose end may be handed to advance_to (not the switching one)
pub fn advance_candidates(pk: &(PeekKind, Vec<Tok>)) -> Vec<usize> {
    let n = pk.1.len();
    (0..n).filter(|i| !(matches!(pk.0, PeekKind::ModeSwitch(_)) && *i == n - 1)).collect()
}

impl<'w> Gen for Gen10<'w> {
    fn next_op(&mut self, rng: &mut Rng) -> Option<Op> {
        if self.m.steps >= self.len {
            return None;
        }
        let w = self.m.world;
        if self.m.live_scanners().is_empty() {
            if self.m.steps > 2 {
                return None; // the configuration does not build
            }
            return Some(Op::Build { sc: 0, cfg: 0, how: BuildHow::Uncached });
        }
        let its = self.m.live_iters();
        let free = self.m.free_iters();
        if its.is_empty() || (!free.is_empty() && rng.chance(1, 15)) {
            let it = if free.is_empty() { rng.below(self.m.iters.len()) } else { *rng.pick(&free) };
            let input = rng.below(w.inputs.len());
            let with_offset = if rng.chance(1, 3) {
                let b = gen::boundaries(&w.inputs[input]);
                Some(if rng.chance(1, 10) { w.inputs[input].len() + rng.range(1, 3) } else { *rng.pick(&b) })
            } else {
                None
            };
            return Some(Op::NewIter { it, sc: 0, input, positions: rng.chance(1, 6), with_offset });
        }
        let it = *rng.pick(&its);
        let im = self.m.iters[it].as_ref().unwrap();
        let cands = im.last_peek.as_ref().map(advance_candidates).unwrap_or_default();
        let plain = !im.positions;
        let weights = [40, if plain { 12 } else { 0 }, if cands.is_empty() || !plain { 0 } else { 25 }, 18, 5, 1];
        Some(match rng.weighted(&weights) {
            0 => Op::Next { it },
            1 => Op::PeekN { it, n: gen_peek_n(rng) },
            2 => Op::AdvanceToPeeked { it, k: *rng.pick(&cands) },
            3 => {
                let len = self.m.input_of(it).len();
                let offset = if rng.chance(1, 12) { len + rng.range(1, 4) } else { self.m.pick_boundary(rng, it, None) };
                gen_reset(rng, it, offset)
            }
            4 => Op::SetModeIter { it, mode: rng.below(self.m.n_modes(it)) },
            _ => Op::DropIter { it },
        })
    }
    fn observe(&mut self, op: &Op, obs: &Obs) {
        self.m.observe(op, obs)
    }
}

struct St<'w> {
    sc: Rc<Scanner>,
    sut: It<'w>,
    shadow: FindMatches<'w>,
    base: usize,
    input: &'w str,
    n_modes: usize,
    cfg: usize,
    cursor: usize,
    since: &'static str,
    nonzero_reset: bool,
    last_peek: Option<(PeekKind, Vec<Tok>)>,
}

struct Exec10<'w> {
    world: &'w World,
    scanners: Vec<Option<(Rc<Scanner>, usize)>>,
    iters: Vec<Option<St<'w>>>,
}

fn fresh_shadow<'w>(sc: &Scanner, input: &'w str, at: usize, mode: usize) -> FindMatches<'w> {
    let mut s = sc.find_iter(&input[at..]);
    s.set_mode(mode);
    s
}

/// History-free resume: a brand-new iterator of the same Scanner, `with_offset(at)` in `mode`. What it
/// yields is by C10's statement what the iterator under test must yield from `at` on, whatever that
/// iterator (and its substring shadow, which mirrors every call) went through before.
fn fresh_resume<'w>(sc: &Scanner, input: &'w str, at: usize, mode: usize) -> FindMatches<'w> {
    let mut s = sc.find_iter(input).with_offset(at);
    s.set_mode(mode);
    s
}

impl<'w> Exec for Exec10<'w> {
    fn step(&mut self, idx: usize, op: &Op) -> StepOut {
        match op {
            Op::Build { sc, cfg, .. } => {
                let Some(c) = self.world.configs.get(*cfg) else { return StepOut::skipped() };
                grow(&mut self.scanners, *sc);
                // never through the cache: cache transparency is C13's business
                match sut::build(c, BuildHow::Uncached) {
                    Ok(s) => {
                        self.scanners[*sc] = Some((Rc::new(s), *cfg));
                        StepOut::ok(Obs::Built(Ok(())))
                    }
                    Err(Ok(k)) => {
                        self.scanners[*sc] = None;
                        StepOut::ok(Obs::Built(Err(k)))
                    }
                    Err(Err(p)) => {
                        self.scanners[*sc] = None;
                        bump("abort.build_panic");
                        StepOut::abort(Obs::Panic(p))
                    }
                }
            }
            Op::NewIter { it, sc, input, with_offset, positions } => {
                let Some(Some((s, cfg))) = self.scanners.get(*sc) else { return StepOut::skipped() };
                let Some(inp) = self.world.inputs.get(*input) else { return StepOut::skipped() };
                let inp: &'w str = inp.as_str();
                if let Some(o) = with_offset {
                    if *o <= inp.len() && !inp.is_char_boundary(*o) {
                        return StepOut::skipped();
                    }
                }
                grow(&mut self.iters, *it);
                self.iters[*it] = None;
                let b = with_offset.map(|o| o.min(inp.len())).unwrap_or(0);
                let s2 = s.clone();
                if *positions {
                    mark("probe.positions_wrapped_iterator");
                }
                let r = guarded(|| It::new(&s2, inp, *positions, *with_offset));
                match r {
                    Ok(f) => {
                        if let Some(o) = with_offset {
                            classify_reset(*o, inp.len(), 0);
                        }
                        self.iters[*it] = Some(St {
                            sc: s.clone(),
                            sut: f,
                            shadow: fresh_shadow(s, inp, b, 0),
                            base: b,
                            input: inp,
                            n_modes: self.world.configs[*cfg].len(),
                            cfg: *cfg,
                            cursor: b,
                            since: if with_offset.is_some() { "after_reset" } else { "fresh" },
                            nonzero_reset: b > 0,
                            last_peek: None,
                        });
                        StepOut::ok(Obs::Unit)
                    }
                    Err(p) => StepOut::fail(Obs::Panic(p.clone()), viol(format!("C10/panic/with_offset/{}", sut::panic_class(&p)), idx, "no panic", p)),
                }
            }
            Op::DropIter { it } => {
                if let Some(s) = self.iters.get_mut(*it) {
                    *s = None;
                }
                StepOut::ok(Obs::Unit)
            }
            _ => {
                let Some(slot) = op.iter_slot() else { return StepOut::skipped() };
                let world = self.world;
                let Some(Some(st)) = self.iters.get_mut(slot) else { return StepOut::skipped() };
                let last_peek = st.last_peek.clone();
                let out = match op {
                    Op::Next { .. } => {
                        let fresh = if idx % 3 == 0 {
                            let (sc, input, cursor, mode) = (st.sc.clone(), st.input, st.cursor, st.shadow.current_mode());
                            guarded(|| fresh_resume(&sc, input, cursor, mode).next().map(|m| sut::tok(&m))).ok()
                        } else {
                            None
                        };
                        let a = guarded(|| st.sut.next_tok());
                        let b = guarded(|| st.shadow.next().map(|m| sut::tok(&m)));
                        match (a, b) {
                            (Err(p), Err(_)) => {
                                bump("abort.symmetric_panic");
                                StepOut::abort(Obs::Panic(p))
                            }
                            (Err(p), Ok(e)) => StepOut::fail(
                                Obs::Panic(p.clone()),
                                viol(format!("C10/stream/{}/next_panics", st.since), idx, e.map(|t| sut::shift(t, st.base)), p),
                            ),
                            (Ok(t), Err(p)) => {
                                // the history-free side panicked, the iterator with history did not
                                StepOut::fail(Obs::Tok(t), viol(format!("C10/stream/{}/substring_scan_panics", st.since), idx, format!("panic {}", p), t))
                            }
                            (Ok(t), Ok(e)) => {
                                let e = e.map(|t| sut::shift(t, st.base));
                                if t != e {
                                    StepOut::fail(Obs::Tok(t), viol(format!("C10/stream/{}/next", st.since), idx, e, t))
                                } else if fresh.is_some() && fresh != Some(t) {
                                    mark("probe.fresh_resume_compared");
                                    StepOut::fail(Obs::Tok(t), viol(format!("C10/stream/{}/next_vs_fresh_resume", st.since), idx, fresh.unwrap(), t))
                                } else {
                                    if fresh.is_some() {
                                        mark("probe.fresh_resume_compared");
                                    }
                                    if let Some(t) = t {
                                        st.cursor = t.2;
                                        if st.since == "after_reset" && st.nonzero_reset {
                                            mark("probe.token_after_nonzero_reset");
                                            if world.configs[st.cfg].iter().any(|m| m.patterns.iter().any(|p| p.token_type == t.0 && p.lookahead.is_some())) {
                                                mark("probe.lookahead_token_after_reset");
                                            }
                                        }
                                        if st.since == "after_advance" {
                                            mark("probe.token_after_advance");
                                        }
                                    } else {
                                        st.cursor = st.input.len();
                                    }
                                    let (ma, mb) = (st.sut.current_mode(), st.shadow.current_mode());
                                    if ma != mb {
                                        StepOut::fail(Obs::Tok(t), viol(format!("C10/mode/{}", st.since), idx, mb, ma))
                                    } else {
                                        StepOut::ok(Obs::Tok(t))
                                    }
                                }
                            }
                        }
                    }
                    Op::PeekN { n, .. } => {
                        if st.sut.plain().is_none() {
                            return StepOut::skipped();
                        }
                        let fresh = {
                            let (sc, input, cursor, mode) = (st.sc.clone(), st.input, st.cursor, st.shadow.current_mode());
                            guarded(|| sut::peek_obs(fresh_resume(&sc, input, cursor, mode).peek_n(*n))).ok()
                        };
                        let a = guarded(|| sut::peek_obs(st.sut.plain().unwrap().peek_n(*n)));
                        let b = guarded(|| sut::peek_obs(st.shadow.peek_n(*n)));
                        match (a, b) {
                            (Err(p), Err(_)) => {
                                bump("abort.symmetric_panic");
                                StepOut::abort(Obs::Panic(p))
                            }
                            (Err(p), Ok(_)) => StepOut::fail(Obs::Panic(p.clone()), viol(format!("C10/stream/{}/peek_panics", st.since), idx, "no panic", p)),
                            (Ok((k, v)), Err(p)) => StepOut::fail(Obs::Peek(k, v), viol(format!("C10/stream/{}/substring_peek_panics", st.since), idx, "same", p)),
                            (Ok((k, v)), Ok((ek, ev))) => {
                                let ev: Vec<Tok> = ev.into_iter().map(|t| sut::shift(t, st.base)).collect();
                                if st.since == "after_reset" {
                                    mark("probe.peek_after_reset");
                                }
                                st.last_peek = Some((k.clone(), v.clone()));
                                if (k.clone(), v.clone()) != (ek.clone(), ev.clone()) {
                                    StepOut::fail(Obs::Peek(k.clone(), v.clone()), viol(format!("C10/stream/{}/peek", st.since), idx, (ek, ev), (k, v)))
                                } else if fresh.is_some() && fresh != Some((k.clone(), v.clone())) {
                                    mark("probe.fresh_resume_compared");
                                    StepOut::fail(Obs::Peek(k.clone(), v.clone()), viol(format!("C10/stream/{}/peek_vs_fresh_resume", st.since), idx, fresh.unwrap(), (k, v)))
                                } else {
                                    if fresh.is_some() {
                                        mark("probe.fresh_resume_compared");
                                    }
                                    StepOut::ok(Obs::Peek(k, v))
                                }
                            }
                        }
                    }
                    Op::AdvanceToPeeked { k, .. } => {
                        let Some(pk) = last_peek else { return StepOut::skipped() };
                        if !advance_candidates(&pk).contains(k) {
                            return StepOut::skipped();
                        }
                        let p = pk.1[*k].2;
                        if p > st.input.len() || !st.input.is_char_boundary(p) {
                            return StepOut::skipped();
                        }
                        bump("fault.skip_ahead");
                        if st.nonzero_reset {
                            mark("probe.advance_after_reset");
                        }
                        let mode = st.shadow.current_mode();
                        if st.sut.plain().is_none() {
                            return StepOut::skipped();
                        }
                        match guarded(|| st.sut.plain().unwrap().advance_to(p)) {
                            Ok(r) => {
                                st.shadow = fresh_shadow(&st.sc, st.input, p, mode);
                                st.base = p;
                                st.cursor = p;
                                st.since = "after_advance";
                                StepOut::ok(Obs::Num(r))
                            }
                            Err(pn) => StepOut::fail(Obs::Panic(pn.clone()), viol(format!("C10/panic/advance_to/{}", sut::panic_class(&pn)), idx, "no panic", pn)),
                        }
                    }
                    Op::SetOffset { offset, .. } | Op::WithOffsetMid { offset, .. } => {
                        let mid = matches!(op, Op::WithOffsetMid { .. });
                        if mid {
                            mark("probe.with_offset_mid_history");
                        }
                        let len = st.input.len();
                        if *offset <= len && !st.input.is_char_boundary(*offset) {
                            return StepOut::skipped();
                        }
                        let b = (*offset).min(len);
                        classify_reset(*offset, len, st.cursor);
                        let mode = st.shadow.current_mode();
                        if mode != 0 {
                            mark("probe.reset_in_nonzero_mode");
                        }
                        match guarded(|| if mid { st.sut.with_offset_mid(*offset) } else { st.sut.set_offset(*offset) }) {
                            Ok(()) => {
                                st.shadow = fresh_shadow(&st.sc, st.input, b, mode);
                                st.base = b;
                                st.cursor = b;
                                st.since = "after_reset";
                                st.nonzero_reset = b > 0;
                                StepOut::ok(Obs::Unit)
                            }
                            Err(p) => StepOut::fail(Obs::Panic(p.clone()), viol(format!("C10/panic/set_offset/{}", sut::panic_class(&p)), idx, "no panic", p)),
                        }
                    }
                    Op::SetModeIter { mode, .. } => {
                        if *mode >= st.n_modes {
                            return StepOut::skipped();
                        }
                        bump("fault.mode_override");
                        st.sut.set_mode(*mode);
                        st.shadow.set_mode(*mode);
                        StepOut::ok(Obs::Unit)
                    }
                    _ => return StepOut::skipped(),
                };
                if !matches!(op, Op::PeekN { .. }) {
                    if let Some(Some(st)) = self.iters.get_mut(slot) {
                        st.last_peek = None;
                    }
                }
                if matches!(out.obs, Obs::Panic(_)) {
                    self.iters[slot] = None;
                }
                out
            }
        }
    }
}

pub fn classify_reset(offset: usize, len: usize, cursor: usize) {
    bump(if offset > len {
        "fault.reset_beyond"
    } else if offset == 0 {
        "fault.reset_zero"
    } else if offset == len {
        "fault.reset_len"
    } else if offset < cursor {
        "fault.reset_back"
    } else {
        "fault.reset_fwd"
    });
}
