//! C07 — token streams are well-formed, scanning makes progress, nothing panics.
//! Union operation mix; invariant monitors evaluated after every operation.

use super::common::*;
use super::*;
use crate::gen::{self, Knobs};
use crate::sut::{self, bump, guarded, mark, It};
use scnr::{Scanner, ScannerModeSwitcher};

pub struct C07;

impl Prop for C07 {
    fn id(&self) -> &'static str {
        "C07"
    }
    fn gen_world(&self, rng: &mut Rng, corpus: &Corpus) -> World {
        if rng.chance(1, 400) {
            let heavy = rng.chance(1, 4);
            if let Some(w) = gen::corpus_world(rng, corpus, 120, 2, heavy) {
                mark("probe.corpus_world");
                return w;
            }
        }
        let k = Knobs {
            configs: (1, 2),
            modes: (1, 4),
            max_transitions: 4,
            patterns: (1, 4),
            lookahead_pct: gen::draw_lookahead_pct(rng),
            disjoint_types: false,
            inputs: (1, 2),
            input_len: gen_input_len(rng, 40),
            newline_rich: rng.chance(1, 3),
            allow_nullable: true,
            allow_empty_mode: true,
            ..Knobs::default()
        };
        let gw = gen::gen_world(rng, &k);
        if gw.configs.iter().any(|c| c.has_nullable_pattern()) {
            mark("probe.world_with_nullable_pattern");
        }
        if gw.configs.iter().any(|c| c.has_empty_mode()) {
            mark("probe.world_with_empty_mode");
        }
        gw.world
    }
    fn new_gen<'w>(&self, world: &'w World, rng: &mut Rng) -> Box<dyn Gen + 'w> {
        Box::new(Gen07 { m: GenModel::new(world, 2, 3), len: gen_history_len(rng, 8, 60) })
    }
    fn new_exec<'w>(&self, world: &'w World) -> Box<dyn Exec + 'w> {
        Box::new(Exec07 { world, scanners: vec![], iters: vec![] })
    }
    fn nontrivial(&self, marks: &BTreeSet<&'static str>) -> bool {
        marks.contains("probe.token_after_reset") || marks.contains("probe.none_then_next") || marks.contains("probe.peek_with_matches")
    }
    fn rule(&self) -> &'static str {
        "one case = (world, operation history) drawn from (seed, run index); distinct = distinct hash of the literal world+history; non-trivial = the history produced a token after a set_offset, or called next() after None, or a peek returned matches"
    }
    fn runs(&self) -> (u64, u64) {
        (300_000, 10_000_000)
    }
    fn expected_probes(&self) -> &'static [&'static str] {
        &[
            "probe.token_after_reset", "probe.none_then_next", "probe.peek_with_matches", "probe.multibyte_token",
            "probe.world_with_nullable_pattern", "probe.world_with_empty_mode", "probe.build_ok", "probe.lookahead_world", "fault.reset_back", "fault.reset_fwd",
            "fault.reset_zero", "fault.reset_len", "fault.reset_beyond", "fault.exhaust_then_continue",
            "fault.mode_override", "fault.skip_ahead", "fault.abandon",
        ]
    }
}

struct Gen07<'w> {
    m: GenModel<'w>,
    len: usize,
}

impl<'w> Gen for Gen07<'w> {
    fn next_op(&mut self, rng: &mut Rng) -> Option<Op> {
        if self.m.steps >= self.len {
            return None;
        }
        let w = self.m.world;
        let scs = self.m.live_scanners();
        if scs.is_empty() || rng.chance(1, 25) {
            let sc = rng.below(self.m.scanners.len());
            let cfg = rng.below(w.configs.len());
            let how = if gen::is_simple(&w.configs[cfg]) && rng.chance(1, 3) {
                BuildHow::AddPatterns
            } else if rng.chance(1, 2) {
                BuildHow::Cached
            } else {
                BuildHow::Uncached
            };
            return Some(Op::Build { sc, cfg, how });
        }
        let its = self.m.live_iters();
        let free = self.m.free_iters();
        if its.is_empty() || (!free.is_empty() && rng.chance(1, 10)) {
            let it = if free.is_empty() { rng.below(self.m.iters.len()) } else { *rng.pick(&free) };
            let input = rng.below(w.inputs.len());
            let with_offset = if rng.chance(1, 5) {
                let b = gen::boundaries(&w.inputs[input]);
                Some(if rng.chance(1, 8) { w.inputs[input].len() + rng.range(1, 3) } else { *rng.pick(&b) })
            } else {
                None
            };
            return Some(Op::NewIter { it, sc: *rng.pick(&scs), input, positions: rng.chance(1, 4), with_offset });
        }
        let it = *rng.pick(&its);
        let im = self.m.iters[it].as_ref().unwrap();
        let can_adv = !im.positions && im.last_peek.as_ref().map(|p| !p.1.is_empty()).unwrap_or(false);
        let plain = !im.positions;
        let weights = [
            40,                          // next
            if plain { 10 } else { 0 },  // peek
            if can_adv { 12 } else { 0 }, // advance_to
            8,                           // set_offset
            4,                           // set_mode_iter
            2,                           // set_mode_scanner
            4,                           // position
            2,                           // mode_query
            3,                           // drain
            2,                           // drop
        ];
        Some(match rng.weighted(&weights) {
            0 => Op::Next { it },
            1 => Op::PeekN { it, n: gen_peek_n(rng) },
            2 => Op::AdvanceToPeeked { it, k: rng.below(im.last_peek.as_ref().unwrap().1.len()) },
            3 => {
                let len = self.m.input_of(it).len();
                let offset = if rng.chance(1, 10) { len + rng.range(1, 4) } else { self.m.pick_boundary(rng, it, None) };
                gen_reset(rng, it, offset)
            }
            4 => Op::SetModeIter { it, mode: rng.below(self.m.n_modes(it)) },
            5 => {
                let sc = im.sc;
                let n = self.m.scanners[sc].map(|c| w.configs[c].len()).unwrap_or(1);
                Op::SetModeScanner { sc, mode: rng.below(n) }
            }
            6 => Op::Position { it, offset: rng.range(0, im.hwm) },
            7 => Op::ModeQuery { it },
            8 => Op::Drain { it, extra: rng.range(1, 3) },
            _ => Op::DropIter { it },
        })
    }
    fn observe(&mut self, op: &Op, obs: &Obs) {
        self.m.observe(op, obs)
    }
}

struct ItSt<'w> {
    it: It<'w>,
    input: &'w str,
    n_modes: usize,
    last_end: Option<usize>,
    count: usize,
    budget: usize,
    exhausted: bool,
    hwm: usize,
    cursor: usize,
    was_reset: bool,
    last_peek: Option<Vec<Tok>>,
}

struct Exec07<'w> {
    world: &'w World,
    scanners: Vec<Option<(Scanner, usize)>>,
    iters: Vec<Option<ItSt<'w>>>,
}

fn check_span(input: &str, t: Tok) -> Option<&'static str> {
    let (_, s, e) = t;
    if s >= e {
        Some("empty")
    } else if e > input.len() {
        Some("out_of_input")
    } else if !input.is_char_boundary(s) || !input.is_char_boundary(e) {
        Some("not_on_char_boundary")
    } else {
        None
    }
}

impl<'w> Exec07<'w> {
    /// monitors for a token delivered by next()
    fn judge_next(st: &mut ItSt<'w>, idx: usize, t: Option<Tok>) -> Option<Violation> {
        match t {
            Some(t) => {
                if st.exhausted {
                    return Some(viol("C07/exhausted/some_after_none".into(), idx, "None (iterator was exhausted, no reset since)", t));
                }
                if let Some(why) = check_span(st.input, t) {
                    return Some(viol(format!("C07/span/{}", why), idx, "non-empty span inside the input on char boundaries", t));
                }
                if let Some(le) = st.last_end {
                    if t.1 < le {
                        return Some(viol("C07/span/overlap".into(), idx, format!("start >= {}", le), t));
                    }
                }
                st.count += 1;
                if st.count > st.budget {
                    return Some(viol("C07/progress/too_many_tokens".into(), idx, format!("at most {} tokens since the last reset", st.budget), st.count));
                }
                if st.was_reset {
                    mark("probe.token_after_reset");
                }
                if st.input[t.1..t.2].chars().any(|c| c.len_utf8() > 1) {
                    mark("probe.multibyte_token");
                }
                st.last_end = Some(t.2);
                st.cursor = t.2;
                st.hwm = st.hwm.max(t.2);
                None
            }
            None => {
                if st.exhausted {
                    mark("probe.none_then_next");
                    bump("fault.exhaust_then_continue");
                }
                st.exhausted = true;
                st.cursor = st.input.len();
                st.hwm = st.input.len();
                None
            }
        }
    }
}

impl<'w> Exec for Exec07<'w> {
    fn step(&mut self, idx: usize, op: &Op) -> StepOut {
        let panic_out = |p: String| {
            let v = viol(format!("C07/panic/{}", sut::panic_class(&p)), idx, "no panic", &p);
            StepOut::fail(Obs::Panic(p), v)
        };
        match op {
            Op::Build { sc, cfg, how } => {
                let Some(c) = self.world.configs.get(*cfg) else { return StepOut::skipped() };
                if *how == BuildHow::AddPatterns && !gen::is_simple(c) {
                    return StepOut::skipped();
                }
                grow(&mut self.scanners, *sc);
                if c.iter().any(|m| m.patterns.iter().any(|p| p.lookahead.is_some())) {
                    mark("probe.lookahead_world");
                }
                match sut::build(c, *how) {
                    Ok(s) => {
                        self.scanners[*sc] = Some((s, *cfg));
                        bump("probe.build_ok");
                        StepOut::ok(Obs::Built(Ok(())))
                    }
                    Err(Ok(kind)) => {
                        self.scanners[*sc] = None;
                        bump("probe.build_err");
                        StepOut::ok(Obs::Built(Err(kind)))
                    }
                    Err(Err(p)) => {
                        self.scanners[*sc] = None;
                        panic_out(p)
                    }
                }
            }
            Op::DropScanner { sc } => {
                if let Some(s) = self.scanners.get_mut(*sc) {
                    *s = None;
                }
                StepOut::ok(Obs::Unit)
            }
            Op::SetModeScanner { sc, mode } => {
                let Some(Some((s, cfg))) = self.scanners.get_mut(*sc) else { return StepOut::skipped() };
                if *mode >= self.world.configs[*cfg].len() {
                    return StepOut::skipped();
                }
                bump("fault.mode_override");
                match guarded(|| s.set_mode(*mode)) {
                    Ok(()) => StepOut::ok(Obs::Unit),
                    Err(p) => panic_out(p),
                }
            }
            Op::NewIter { it, sc, input, positions, with_offset } => {
                let Some(Some((s, cfg))) = self.scanners.get(*sc) else { return StepOut::skipped() };
                let Some(inp) = self.world.inputs.get(*input) else { return StepOut::skipped() };
                let inp: &'w str = inp.as_str();
                if let Some(o) = with_offset {
                    if *o <= inp.len() && !inp.is_char_boundary(*o) {
                        return StepOut::skipped();
                    }
                }
                grow(&mut self.iters, *it);
                if let Some(old) = &self.iters[*it] {
                    if !old.exhausted {
                        bump("fault.abandon");
                    }
                }
                self.iters[*it] = None;
                let n_modes = self.world.configs[*cfg].len();
                match guarded(|| It::new(s, inp, *positions, *with_offset)) {
                    Ok(i) => {
                        let base = with_offset.map(|o| o.min(inp.len())).unwrap_or(0);
                        self.iters[*it] = Some(ItSt {
                            it: i,
                            input: inp,
                            n_modes,
                            last_end: None,
                            count: 0,
                            budget: inp[base..].chars().count(),
                            exhausted: false,
                            hwm: 0,
                            cursor: base,
                            was_reset: with_offset.is_some(),
                            last_peek: None,
                        });
                        StepOut::ok(Obs::Unit)
                    }
                    Err(p) => panic_out(p),
                }
            }
            Op::DropIter { it } => {
                if let Some(slot) = self.iters.get_mut(*it) {
                    if let Some(st) = slot {
                        if !st.exhausted {
                            bump("fault.abandon");
                        }
                    }
                    *slot = None;
                }
                StepOut::ok(Obs::Unit)
            }
            _ => {
                let Some(slot) = op.iter_slot() else { return StepOut::skipped() };
                let Some(Some(st)) = self.iters.get_mut(slot) else { return StepOut::skipped() };
                let last_peek = st.last_peek.clone();
                let out = match op {
                    Op::Next { .. } => match guarded(|| st.it.next_tok()) {
                        Ok(t) => {
                            let v = Self::judge_next(st, idx, t);
                            StepOut { obs: Obs::Tok(t), violation: v, abort: false }
                        }
                        Err(p) => panic_out(p),
                    },
                    Op::Drain { extra, .. } => {
                        let mut toks = Vec::new();
                        let mut res: Option<StepOut> = None;
                        let limit = st.input.len() + 2;
                        let mut nones = 0;
                        let mut calls = 0;
                        while nones < 1 + *extra {
                            calls += 1;
                            if calls > limit + 1 + *extra {
                                res = Some(StepOut::fail(
                                    Obs::Toks(toks.clone()),
                                    viol("C07/progress/no_termination".into(), idx, format!("None within {} calls", limit), calls),
                                ));
                                break;
                            }
                            match guarded(|| st.it.next_tok()) {
                                Ok(t) => {
                                    if t.is_none() {
                                        nones += 1;
                                    } else {
                                        toks.push(t.unwrap());
                                    }
                                    if let Some(v) = Self::judge_next(st, idx, t) {
                                        res = Some(StepOut::fail(Obs::Toks(toks.clone()), v));
                                        break;
                                    }
                                }
                                Err(p) => {
                                    res = Some(panic_out(p));
                                    break;
                                }
                            }
                        }
                        res.unwrap_or_else(|| StepOut::ok(Obs::Toks(toks)))
                    }
                    Op::PeekN { n, .. } => {
                        let Some(f) = st.it.plain() else { return StepOut::skipped() };
                        match guarded(|| sut::peek_obs(f.peek_n(*n))) {
                            Ok((k, v)) => {
                                let mut viol_ = None;
                                let mut prev: Option<usize> = None;
                                for t in &v {
                                    if let Some(why) = check_span(st.input, *t) {
                                        viol_ = Some(viol(format!("C07/peek_span/{}", why), idx, "well-formed peeked span", t));
                                        break;
                                    }
                                    if let Some(pe) = prev {
                                        if t.1 < pe {
                                            viol_ = Some(viol("C07/peek_span/overlap".into(), idx, format!("start >= {}", pe), t));
                                            break;
                                        }
                                    }
                                    prev = Some(t.2);
                                }
                                if viol_.is_none() && v.len() > *n {
                                    viol_ = Some(viol("C07/peek_span/more_than_n".into(), idx, format!("at most {} matches", n), v.len()));
                                }
                                if !v.is_empty() {
                                    mark("probe.peek_with_matches");
                                }
                                st.last_peek = Some(v.clone());
                                StepOut { obs: Obs::Peek(k, v), violation: viol_, abort: false }
                            }
                            Err(p) => panic_out(p),
                        }
                    }
                    Op::AdvanceToPeeked { k, .. } => {
                        let Some(pk) = last_peek else { return StepOut::skipped() };
                        let Some(t) = pk.get(*k) else { return StepOut::skipped() };
                        let Some(f) = st.it.plain() else { return StepOut::skipped() };
                        bump("fault.skip_ahead");
                        match guarded(|| f.advance_to(t.2)) {
                            Ok(p) => StepOut::ok(Obs::Num(p)),
                            Err(p) => panic_out(p),
                        }
                    }
                    Op::SetOffset { offset, .. } | Op::WithOffsetMid { offset, .. } => {
                        let mid = matches!(op, Op::WithOffsetMid { .. });
                        let len = st.input.len();
                        if *offset <= len && !st.input.is_char_boundary(*offset) {
                            return StepOut::skipped();
                        }
                        let o = (*offset).min(len);
                        bump(if *offset > len {
                            "fault.reset_beyond"
                        } else if *offset == 0 {
                            "fault.reset_zero"
                        } else if *offset == len {
                            "fault.reset_len"
                        } else if *offset < st.cursor {
                            "fault.reset_back"
                        } else {
                            "fault.reset_fwd"
                        });
                        match guarded(|| if mid { st.it.with_offset_mid(*offset) } else { st.it.set_offset(*offset) }) {
                            Ok(()) => {
                                st.last_end = None;
                                st.count = 0;
                                st.budget = st.input[o..].chars().count();
                                st.exhausted = false;
                                st.cursor = o;
                                st.was_reset = true;
                                StepOut::ok(Obs::Unit)
                            }
                            Err(p) => panic_out(p),
                        }
                    }
                    Op::SetModeIter { mode, .. } => {
                        if *mode >= st.n_modes {
                            return StepOut::skipped();
                        }
                        bump("fault.mode_override");
                        match guarded(|| st.it.set_mode(*mode)) {
                            Ok(()) => StepOut::ok(Obs::Unit),
                            Err(p) => panic_out(p),
                        }
                    }
                    Op::Position { offset, .. } => {
                        if *offset > st.hwm {
                            return StepOut::skipped();
                        }
                        match guarded(|| st.it.position(*offset)) {
                            Ok((l, c)) => StepOut::ok(Obs::Pos(l, c)),
                            Err(p) => panic_out(p),
                        }
                    }
                    Op::ModeQuery { .. } => match guarded(|| st.it.current_mode()) {
                        Ok(m) => StepOut::ok(Obs::Num(m)),
                        Err(p) => panic_out(p),
                    },
                    _ => StepOut::skipped(),
                };
                if !matches!(op, Op::PeekN { .. }) {
                    if let Some(Some(st)) = self.iters.get_mut(slot) {
                        st.last_peek = None;
                    }
                }
                if matches!(out.obs, Obs::Panic(_)) {
                    // an iterator that panicked is in an unknown state: drop it
                    self.iters[slot] = None;
                }
                out
            }
        }
    }
}
