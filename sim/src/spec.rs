//! Data types shared by generators, executors, replay and shrinking.
//! Everything that appears in a replay file is defined here and is plain serde data.

use serde::{Deserialize, Serialize};

#[derive(Clone, Debug, PartialEq, Eq, Hash, Serialize, Deserialize)]
pub struct LookaheadSpec {
    pub is_positive: bool,
    pub pattern: String,
}

/// Same JSON layout as scnr's own `Pattern`.
#[derive(Clone, Debug, PartialEq, Eq, Hash, Serialize, Deserialize)]
pub struct PatternSpec {
    pub pattern: String,
    pub token_type: usize,
    #[serde(default, skip_serializing_if = "Option::is_none")]
    pub lookahead: Option<LookaheadSpec>,
}

/// Same JSON layout as scnr's own `ScannerMode`.
#[derive(Clone, Debug, PartialEq, Eq, Hash, Serialize, Deserialize)]
pub struct ModeSpec {
    pub name: String,
    pub patterns: Vec<PatternSpec>,
    pub transitions: Vec<(usize, usize)>,
}

pub type Config = Vec<ModeSpec>;

#[derive(Clone, Debug, PartialEq, Eq, Hash, Serialize, Deserialize, Default)]
pub struct World {
    pub configs: Vec<Config>,
    pub inputs: Vec<String>,
    /// Free-form description of how the world was drawn (knobs); not used by executors.
    #[serde(default)]
    pub note: String,
}

#[derive(Clone, Copy, Debug, PartialEq, Eq, Hash, Serialize, Deserialize)]
pub enum BuildHow {
    /// `ScannerBuilder::build()` (through the process-wide cache)
    Cached,
    /// `ScannerBuilder::build_uncached()`
    Uncached,
    /// `ScannerBuilder::add_patterns(..).build()`; only for single-mode configurations whose
    /// token types are 0..n in order, without lookahead and transitions.
    AddPatterns,
    /// `Scanner::try_from(Vec<ScannerMode>)` (uncached, another construction path)
    TryFromVec,
}

#[derive(Clone, Copy, Debug, PartialEq, Eq, Hash, Serialize, Deserialize)]
pub enum FolderFault {
    Missing,
    NotADir,
    ReadOnlyPerm,
    ReadOnlyFs,
    NameIsDir,
    StaleFile,
    Enospc,
    /// the target file already exists and is read-only (needs an unprivileged worker)
    TargetFileReadOnly,
}

/// The operation alphabet. Slots (`sc`, `it`) index simulator-owned tables; an operation whose
/// slot is empty or whose precondition does not hold is skipped by every executor, so any
/// sub-list of a history is again a valid history (needed for delta debugging).
#[derive(Clone, Debug, PartialEq, Eq, Hash, Serialize, Deserialize)]
pub enum Op {
    Build { sc: usize, cfg: usize, how: BuildHow },
    NewIter { it: usize, sc: usize, input: usize, positions: bool, with_offset: Option<usize> },
    Next { it: usize },
    PeekN { it: usize, n: usize },
    /// `advance_to(end of the k-th match of the immediately preceding peek)`.
    AdvanceToPeeked { it: usize, k: usize },
    SetOffset { it: usize, offset: usize },
    /// the consuming form in the middle of a history: `it = it.with_offset(offset)`
    WithOffsetMid { it: usize, offset: usize },
    SetModeIter { it: usize, mode: usize },
    SetModeScanner { sc: usize, mode: usize },
    Position { it: usize, offset: usize },
    ModeQuery { it: usize },
    /// call `next` until `None`, then `extra` more times
    Drain { it: usize, extra: usize },
    DropIter { it: usize },
    DropScanner { sc: usize },
    /// C18
    ExportDot { sc: usize, prefix: String },
    /// `victim` selects which mode's file a name-dependent fault hits (index modulo mode count)
    BreakFolder { kind: FolderFault, #[serde(default)] victim: usize },
    HealFolder,
    /// C18: name flavour of the target folder: 0 ascii, 1 non-ASCII UTF-8, 2 contains a space,
    /// 3 not valid UTF-8 (legal on Linux)
    SetFolderName { flavour: u8 },
}

impl Op {
    pub fn kind(&self) -> &'static str {
        match self {
            Op::Build { .. } => "build",
            Op::NewIter { .. } => "new_iter",
            Op::Next { .. } => "next",
            Op::PeekN { .. } => "peek_n",
            Op::AdvanceToPeeked { .. } => "advance_to",
            Op::SetOffset { .. } => "set_offset",
            Op::WithOffsetMid { .. } => "with_offset_mid",
            Op::SetModeIter { .. } => "set_mode_iter",
            Op::SetModeScanner { .. } => "set_mode_scanner",
            Op::Position { .. } => "position",
            Op::ModeQuery { .. } => "mode_query",
            Op::Drain { .. } => "drain",
            Op::DropIter { .. } => "drop_iter",
            Op::DropScanner { .. } => "drop_scanner",
            Op::ExportDot { .. } => "export_dot",
            Op::BreakFolder { .. } => "break_folder",
            Op::HealFolder => "heal_folder",
            Op::SetFolderName { .. } => "set_folder_name",
        }
    }
    /// The iterator slot the op acts on, if any.
    pub fn iter_slot(&self) -> Option<usize> {
        match self {
            Op::NewIter { it, .. }
            | Op::Next { it }
            | Op::PeekN { it, .. }
            | Op::AdvanceToPeeked { it, .. }
            | Op::SetOffset { it, .. }
            | Op::WithOffsetMid { it, .. }
            | Op::SetModeIter { it, .. }
            | Op::Position { it, .. }
            | Op::ModeQuery { it }
            | Op::Drain { it, .. }
            | Op::DropIter { it } => Some(*it),
            _ => None,
        }
    }
}

/// A token as observed: (token type, start, end).
pub type Tok = (usize, usize, usize);

#[derive(Clone, Debug, PartialEq, Eq, Hash, Serialize, Deserialize)]
pub enum PeekKind {
    Matches,
    ReachedEnd,
    ModeSwitch(usize),
    NotFound,
}

/// What an operation returned, in plain data.
#[derive(Clone, Debug, PartialEq, Eq, Hash, Serialize, Deserialize)]
pub enum Obs {
    /// operation skipped (empty slot / precondition not met)
    Skipped,
    Unit,
    Built(std::result::Result<(), String>),
    Tok(Option<Tok>),
    /// token with (start line, start col, end line, end col)
    TokPos(Option<(Tok, (usize, usize), (usize, usize))>),
    Peek(PeekKind, Vec<Tok>),
    Num(usize),
    Pos(usize, usize),
    Toks(Vec<Tok>),
    Export(std::result::Result<(), String>),
    Panic(String),
}

#[derive(Clone, Debug, PartialEq, Eq, Serialize, Deserialize)]
pub struct Violation {
    /// `<property>/<check>/<discriminator>`; stable under minimisation of the same defect.
    pub signature: String,
    /// index of the failing operation in the history (or history length for end-of-run checks)
    pub step: usize,
    pub expected: String,
    pub observed: String,
}

#[derive(Clone, Debug, Serialize, Deserialize)]
pub struct ReplayFile {
    pub property: String,
    pub seed: u64,
    pub run: u64,
    pub world: World,
    pub ops: Vec<Op>,
    pub faults: Vec<String>,
    pub violation: Violation,
    #[serde(default)]
    pub minimised: bool,
    #[serde(default)]
    pub original_ops: usize,
    #[serde(default)]
    pub note: String,
    /// Set when the violation depends on what EARLIER runs left in the process (a static in the
    /// system under test): the replay then re-executes the worker's slice of run indices
    /// `offset, offset+stride, ..` up to and including `run` in one process.
    #[serde(default)]
    pub slice: Option<(u64, u64)>,
}
