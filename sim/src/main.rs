//! simcheck — deterministic op-level simulator for scnr (engine A).
//!
//!   simcheck run <PROP> [--tier quick|thorough] [--seed N] [--jobs J] [--runs N]
//!   simcheck worker <PROP> ...            (internal)
//!   simcheck replay <file>
//!   simcheck selftest-determinism [--seeds N]

#![allow(dead_code)]
mod gen;
mod props;
mod rng;
mod runner;
mod shrink;
mod spec;
mod sut;

use runner::*;
use spec::*;
use std::collections::BTreeMap;
use std::process::Command;

fn verif_root() -> String {
    std::env::var("VERIF_ROOT").unwrap_or_else(|_| "/verif".to_string())
}

struct Args {
    pos: Vec<String>,
    kv: BTreeMap<String, String>,
}

fn parse_args() -> Args {
    let mut pos = Vec::new();
    let mut kv = BTreeMap::new();
    let mut it = std::env::args().skip(1);
    while let Some(a) = it.next() {
        if let Some(k) = a.strip_prefix("--") {
            let v = it.next().unwrap_or_default();
            kv.insert(k.to_string(), v);
        } else {
            pos.push(a);
        }
    }
    Args { pos, kv }
}

impl Args {
    fn get(&self, k: &str) -> Option<&str> {
        self.kv.get(k).map(|s| s.as_str())
    }
    fn num(&self, k: &str, d: u64) -> u64 {
        self.get(k).and_then(|s| s.parse().ok()).unwrap_or(d)
    }
}

#[derive(serde::Deserialize, Clone, Debug)]
struct KnownFinding {
    property: String,
    signature: String,
    status: String,
    #[serde(default)]
    what: String,
}
#[derive(serde::Deserialize, Clone, Debug, Default)]
struct KnownFile {
    #[serde(default)]
    findings: Vec<KnownFinding>,
}

fn load_known(prop: &str) -> Vec<KnownFinding> {
    let p = format!("{}/known_findings.json", verif_root());
    let Ok(s) = std::fs::read_to_string(&p) else { return vec![] };
    let kf: KnownFile = serde_json::from_str(&s).unwrap_or_else(|e| {
        eprintln!("harness error: cannot parse {}: {}", p, e);
        std::process::exit(2);
    });
    kf.findings.into_iter().filter(|f| f.property == prop && f.status == "open").collect()
}

fn main() {
    let args = parse_args();
    let cmd = args.pos.first().map(|s| s.as_str()).unwrap_or("");
    let code = match cmd {
        "run" => cmd_run(&args),
        "worker" => cmd_worker(&args),
        "replay" => cmd_replay(&args),
        "selftest-determinism" => cmd_selftest(&args),
        "gen" => cmd_gen(&args),
        "enospc-probe" => cmd_enospc_probe(),
        _ => {
            eprintln!("usage: simcheck run|replay|selftest-determinism ...");
            2
        }
    };
    std::process::exit(code);
}

fn the_prop(args: &Args) -> Box<dyn props::Prop> {
    let id = args.pos.get(1).cloned().unwrap_or_default();
    props::by_id(&id).unwrap_or_else(|| {
        eprintln!("harness error: unknown property {}", id);
        std::process::exit(2);
    })
}

fn cmd_worker(args: &Args) -> i32 {
    let prop = the_prop(args);
    let known: Vec<String> = args
        .get("known")
        .map(|s| s.split('\u{1f}').filter(|x| !x.is_empty()).map(|x| x.to_string()).collect())
        .unwrap_or_default();
    let a = WorkerArgs {
        seed: args.num("seed", 0),
        from: args.num("from", 0),
        to: args.num("to", 0),
        offset: args.num("offset", 0),
        stride: args.num("stride", 1),
        out: args.get("out").unwrap_or("/dev/stdout").to_string(),
        known,
        want_hashes: args.get("want-hashes").is_some(),
        hang_secs: args.num("hang-secs", 120),
        deadline_secs: args.num("deadline-secs", 0),
        trace: args.get("trace").map(|s| s.to_string()),
    };
    worker(prop.as_ref(), &a)
}

/// Print one generated run (debugging aid).
fn cmd_gen(args: &Args) -> i32 {
    sut::install_panic_hook();
    let prop = the_prop(args);
    let corpus = gen::load_corpus();
    let r = run_one(prop.as_ref(), &corpus, args.num("seed", 20261004), args.num("run", 0), None);
    println!("{}", serde_json::to_string_pretty(&serde_json::json!({"world": r.world, "ops": r.ops, "violation": r.violation, "aborted": r.aborted})).unwrap());
    0
}

#[allow(clippy::too_many_arguments)]
fn spawn_one(prop_id: &str, seed: u64, from: u64, to: u64, j: u64, jobs: u64, out: &str, known: &[String], want_hashes: bool, deadline: u64, trace: Option<&str>) -> std::process::Child {
    let hang_secs = std::env::var("SIMCHECK_HANG_SECS").unwrap_or_else(|_| "120".to_string());
    let exe = std::env::current_exe().expect("current_exe");
    let _ = std::fs::remove_file(out);
    // C18: workers run unprivileged (so that permission faults are real); see bin/check_c18
    let wrap: Vec<String> = std::env::var("SIMCHECK_WORKER_WRAP").ok().map(|w| w.split_whitespace().map(|x| x.to_string()).collect()).unwrap_or_default();
    let mut c = if wrap.is_empty() {
        Command::new(&exe)
    } else {
        let mut c = Command::new(&wrap[0]);
        c.args(&wrap[1..]).arg(&exe);
        c
    };
    c.arg("worker")
        .arg(prop_id)
        .args(["--seed", &seed.to_string()])
        .args(["--from", &from.to_string()])
        .args(["--to", &to.to_string()])
        .args(["--offset", &j.to_string()])
        .args(["--stride", &jobs.to_string()])
        .args(["--out", out])
        .args(["--deadline-secs", &deadline.to_string()])
        .args(["--hang-secs", &hang_secs])
        .args(["--known", &known.join("\u{1f}")]);
    if want_hashes {
        c.args(["--want-hashes", "1"]);
    }
    if let Some(t) = trace {
        c.args(["--trace", t]);
        c.stderr(std::process::Stdio::null());
    }
    c.spawn().unwrap_or_else(|e| {
        eprintln!("harness error: cannot spawn worker: {}", e);
        std::process::exit(2);
    })
}

#[allow(clippy::too_many_arguments)]
fn spawn_workers(prop_id: &str, seed: u64, from: u64, to: u64, jobs: u64, work: &str, known: &[String], want_hashes: bool, deadline: u64, tag: &str) -> Vec<(std::process::Child, String)> {
    let mut children = Vec::new();
    for j in 0..jobs {
        let out = format!("{}/{}-{}-w{}.json", work, prop_id, tag, j);
        let child = spawn_one(prop_id, seed, from, to, j, jobs, &out, known, want_hashes, deadline, None);
        children.push((child, out));
    }
    children
}

/// A worker that died without leaving a report: (worker index, exit code, signal).
type Death = (u64, Option<i32>, Option<i32>);

fn collect_or_death(children: Vec<(std::process::Child, String)>) -> (Vec<WorkerReport>, Vec<Death>) {
    use std::os::unix::process::ExitStatusExt;
    let mut reps = Vec::new();
    let mut deaths = Vec::new();
    for (j, (mut ch, out)) in children.into_iter().enumerate() {
        let st = ch.wait().expect("wait");
        let s = std::fs::read_to_string(&out).unwrap_or_default();
        match serde_json::from_str::<WorkerReport>(&s) {
            Ok(r) => reps.push(r),
            Err(_) => {
                deaths.push((j as u64, st.code(), st.signal()));
                reps.push(WorkerReport::default());
            }
        }
    }
    (reps, deaths)
}

fn collect(children: Vec<(std::process::Child, String)>) -> Vec<WorkerReport> {
    let (reps, deaths) = collect_or_death(children);
    if let Some((j, code, sig)) = deaths.first() {
        eprintln!("harness error: worker {} exited with code {:?} signal {:?} and left no report", j, code, sig);
        std::process::exit(2);
    }
    reps
}

/// A worker process died (abort, segfault, stack overflow): re-run its slice with a write-ahead
/// trace, which pins down the world and the operation that kills the process.
#[allow(clippy::too_many_arguments)]
fn locate_crash(prop_id: &str, seed: u64, runs: u64, j: u64, jobs: u64, work: &str, known: &[String], deadline: u64) -> Option<(u64, World, Vec<Op>)> {
    let trace = format!("{}/{}-crash-w{}.trace", work, prop_id, j);
    let out = format!("{}/{}-crash-w{}.json", work, prop_id, j);
    let _ = std::fs::remove_file(&trace);
    let mut ch = spawn_one(prop_id, seed, 0, runs, j, jobs, &out, known, false, deadline, Some(&trace));
    let _ = ch.wait();
    let died = serde_json::from_str::<WorkerReport>(&std::fs::read_to_string(&out).unwrap_or_default()).is_err();
    let text = std::fs::read_to_string(&trace).unwrap_or_default();
    let _ = std::fs::remove_file(&trace);
    let _ = std::fs::remove_file(&out);
    let _ = std::fs::remove_file(format!("{}.hashes", out));
    if !died {
        return None;
    }
    let mut run = 0u64;
    let mut world = None;
    let mut ops = Vec::new();
    for l in text.lines() {
        if let Some(r) = l.strip_prefix("RUN ") {
            run = r.parse().ok()?;
        } else if let Some(w) = l.strip_prefix("WORLD ") {
            world = serde_json::from_str::<World>(w).ok();
        } else if let Some(o) = l.strip_prefix("OP ") {
            ops.push(serde_json::from_str::<Op>(o).ok()?);
        }
    }
    Some((run, world?, ops))
}

fn cmd_run(args: &Args) -> i32 {
    sut::install_panic_hook();
    let prop = the_prop(args);
    let id = prop.id();
    let tier = args.get("tier").map(|s| s.to_string()).or_else(|| std::env::var("VERIF_TIER").ok()).unwrap_or_else(|| "quick".to_string());
    let tier = if tier == "thorough" { "thorough" } else { "quick" };
    let seed = args
        .get("seed")
        .and_then(|s| s.parse().ok())
        .or_else(|| std::env::var("VERIF_SEED").ok().and_then(|s| s.parse().ok()))
        .unwrap_or(20261004u64);
    let jobs = args.num("jobs", 16).max(1);
    let (q, t) = prop.runs();
    let runs = args.num("runs", if tier == "quick" { q } else { t });
    let deadline = args.num("deadline-secs", if tier == "quick" { 240 } else { 3000 });
    let root = verif_root();
    let work = std::env::var("SIMCHECK_WORK").unwrap_or_else(|_| format!("{}/.work", root));
    let _ = std::fs::create_dir_all(&work);
    let _ = std::fs::create_dir_all(format!("{}/evidence", root));
    let _ = std::fs::create_dir_all(format!("{}/replays", root));
    let known = load_known(id);
    let known_sigs: Vec<String> = known.iter().map(|k| k.signature.clone()).collect();
    println!("simcheck: property={} tier={} VERIF_SEED={} runs={} jobs={}", id, tier, seed, runs, jobs);
    let start = std::time::Instant::now();
    if id == "C18" {
        observe_enospc();
    }
    let (reps, deaths) = collect_or_death(spawn_workers(id, seed, 0, runs, jobs, &work, &known_sigs, false, deadline, tier));
    let wall_search = start.elapsed().as_secs_f64();
    let mut crash: Option<FoundViolation> = None;
    if let Some((j, code, sig)) = deaths.first() {
        if sig.is_none() {
            // an exit code without a signal is a panic of the harness itself (panics of scnr are
            // caught around every call): never report that as a finding about scnr
            eprintln!("harness error: worker {} exited with code {:?} and left no report; its own panic message is above", j, code);
            return 2;
        }
        match locate_crash(id, seed, runs, *j, jobs, &work, &known_sigs, deadline) {
            Some((run, world, ops)) => {
                let step = ops.len().saturating_sub(1);
                crash = Some(FoundViolation {
                    run,
                    world,
                    ops,
                    violation: Violation {
                        signature: "crash/worker_process_died".to_string(),
                        step,
                        expected: "the operation returns (or panics and unwinds)".to_string(),
                        observed: format!("the process executing it died: exit code {:?}, signal {:?}", code, sig),
                    },
                });
            }
            None => {
                eprintln!("harness error: worker {} died (code {:?}, signal {:?}) without a report and the death did not repeat under tracing", j, code, sig);
                return 2;
            }
        }
    }

    // merge
    let mut total = WorkerReport::default();
    let mut hashes: Vec<u64> = Vec::new();
    let mut first: Option<FoundViolation> = None;
    let mut hang: Option<FoundViolation> = None;
    for (j, r) in reps.iter().enumerate() {
        total.runs += r.runs;
        total.steps += r.steps;
        total.aborted += r.aborted;
        total.truncated |= r.truncated;
        total.combined_hash = total.combined_hash.wrapping_add(r.combined_hash);
        for (k, v) in &r.stats {
            *total.stats.entry(k.clone()).or_insert(0) += v;
        }
        for (k, v) in &r.known {
            *total.known.entry(k.clone()).or_insert(0) += v;
        }
        for (k, v) in &r.known_example {
            total.known_example.entry(k.clone()).or_insert_with(|| v.clone());
        }
        if total.samples.len() < 3 {
            total.samples.extend(r.samples.iter().cloned());
        }
        if let Some(v) = &r.violation {
            if first.as_ref().map(|f| v.run < f.run).unwrap_or(true) {
                first = Some(v.clone());
            }
        }
        if let Some(h) = &r.hang {
            if hang.as_ref().map(|f| h.run < f.run).unwrap_or(true) {
                hang = Some(h.clone());
            }
        }
        let hp = format!("{}/{}-{}-w{}.json.hashes", work, id, tier, j);
        if let Ok(b) = std::fs::read(&hp) {
            for c in b.chunks_exact(8) {
                hashes.push(u64::from_le_bytes(c.try_into().unwrap()));
            }
        }
        let _ = std::fs::remove_file(&hp);
        let _ = std::fs::remove_file(format!("{}/{}-{}-w{}.json", work, id, tier, j));
    }
    hashes.sort_unstable();
    hashes.dedup();
    total.samples.truncate(3);

    let mut exit = 0;
    let mut n_viol = 0;
    let mut replay_path = String::new();
    let hang = match (hang, crash) {
        (Some(h), Some(c)) => Some(if c.run < h.run { c } else { h }),
        (h, c) => h.or(c),
    };
    if let Some(h) = hang {
        // a hang cannot be minimised in-process; report the literal history up to the call that
        // did not return
        n_viol += 1;
        let rf = ReplayFile {
            property: id.to_string(),
            seed,
            run: h.run,
            world: h.world,
            ops: h.ops.clone(),
            faults: faults_of(&h.ops),
            violation: Violation { signature: format!("{}/{}", id, h.violation.signature), ..h.violation },
            minimised: false,
            original_ops: h.ops.len(),
            note: "hang or crash: the last operation did not return (watchdog) or killed the process executing it".to_string(),
            slice: None,
        };
        let mut rf = rf;
        replay_path = format!("{}/replays/{}-{}-{}.json", root, id, seed, rf.run);
        minimise_hang(&mut rf, &format!("{}.cand", replay_path));
        std::fs::write(&replay_path, serde_json::to_string_pretty(&rf).unwrap()).expect("write replay");
        println!("VIOLATION property={} replay={}", id, replay_path);
        println!("  signature={} step={} ops={} (from {})", rf.violation.signature, rf.violation.step, rf.ops.len(), rf.original_ops);
        exit = 1;
    } else if let Some(fv) = first {
        n_viol += 1;
        replay_path = format!("{}/replays/{}-{}-{}.json", root, id, seed, fv.run);
        let wrapped = std::env::var("SIMCHECK_WORKER_WRAP").map(|w| !w.trim().is_empty()).unwrap_or(false);
        let (w, o, v) = if wrapped {
            // the fault environment only exists for the (unprivileged) workers: minimise through
            // child processes; the failing operation is made the last one first
            let cut = (fv.violation.step + 1).min(fv.ops.len());
            let mut rf = ReplayFile {
                property: id.to_string(),
                seed,
                run: fv.run,
                world: fv.world.clone(),
                ops: fv.ops[..cut].to_vec(),
                faults: vec![],
                violation: fv.violation.clone(),
                minimised: false,
                original_ops: fv.ops.len(),
                note: String::new(),
                slice: None,
            };
            minimise_children(&mut rf, &format!("{}/{}-cand.json", work, id), 120);
            (rf.world, rf.ops, rf.violation)
        } else {
            shrink::minimise(prop.as_ref(), &fv.world, &fv.ops, &fv.violation, 3000, 15)
        };
        let rf = ReplayFile {
            property: id.to_string(),
            seed,
            run: fv.run,
            world: w,
            ops: o.clone(),
            faults: faults_of(&o),
            violation: v.clone(),
            minimised: true,
            original_ops: fv.ops.len(),
            note: String::new(),
            slice: None,
        };
        std::fs::write(&replay_path, serde_json::to_string_pretty(&rf).unwrap()).expect("write replay");
        // the minimised file must reproduce in a fresh process
        let st = wrapped_self().arg("replay").arg(&replay_path).arg("--quiet").arg("1").status();
        let mut rf = rf;
        match st.map(|s| s.code()) {
            Ok(Some(1)) => {}
            other => {
                // In-process minimisation assumes that replays are independent of each other. If
                // the system under test keeps hidden process-wide state (a thread-local pool, a
                // static), candidates executed in the parent pollute each other and the result may
                // not reproduce in a fresh process. Fall back to the literal history of the run
                // and minimise it with one child process per candidate.
                let cut = (fv.violation.step + 1).min(fv.ops.len()).max(1);
                let mut lit = ReplayFile {
                    property: id.to_string(),
                    seed,
                    run: fv.run,
                    world: fv.world.clone(),
                    ops: if fv.violation.step >= fv.ops.len() { fv.ops.clone() } else { fv.ops[..cut].to_vec() },
                    faults: vec![],
                    violation: fv.violation.clone(),
                    minimised: false,
                    original_ops: fv.ops.len(),
                    note: "minimised with one child process per candidate (in-process replays were not independent of each other: the system under test keeps hidden process-wide state)".to_string(),
                    slice: None,
                };
                std::fs::write(&replay_path, serde_json::to_string_pretty(&lit).unwrap()).expect("write replay");
                let st2 = wrapped_self().arg("replay").arg(&replay_path).arg("--quiet").arg("1").status();
                if !matches!(st2.map(|s| s.code()), Ok(Some(1))) {
                    // The run depends on what EARLIER runs of its worker left in the process (a
                    // static inside the system under test). The exactly repeatable execution is
                    // then the worker's slice of run indices up to this run, in one process.
                    lit.slice = Some((fv.run % jobs, jobs));
                    lit.note = "the violation depends on process-wide state left by earlier runs: the replay re-executes the run indices offset, offset+stride, .. up to this run in one process (seeded regeneration)".to_string();
                    std::fs::write(&replay_path, serde_json::to_string_pretty(&lit).unwrap()).expect("write replay");
                    let st3 = wrapped_self().arg("replay").arg(&replay_path).arg("--quiet").arg("1").status();
                    if !matches!(st3.map(|s| s.code()), Ok(Some(1))) {
                        eprintln!("harness error: run {} violates the property inside its worker, but neither its history alone nor the worker's slice up to it reproduces in a fresh process ({:?})", fv.run, other);
                        write_evidence(prop.as_ref(), tier, seed, &total, hashes.len() as u64, start.elapsed().as_secs_f64(), wall_search, 1, &known, jobs);
                        return 2;
                    }
                    let (v, o) = (lit.violation.clone(), lit.ops.clone());
                    println!("VIOLATION property={} replay={}", id, replay_path);
                    println!("  signature={} step={} ops={} (history of run {}; reproduces only after the {} earlier runs of its worker slice)", v.signature, v.step, o.len(), fv.run, fv.run / jobs);
                    println!("  expected: {}", v.expected);
                    println!("  observed: {}", v.observed);
                    write_evidence(prop.as_ref(), tier, seed, &total, hashes.len() as u64, start.elapsed().as_secs_f64(), wall_search, 1, &known, jobs);
                    return 1;
                }
                if fv.violation.step < fv.ops.len() {
                    minimise_children(&mut lit, &format!("{}/{}-cand.json", work, id), 80);
                }
                lit.faults = faults_of(&lit.ops);
                std::fs::write(&replay_path, serde_json::to_string_pretty(&lit).unwrap()).expect("write replay");
                rf = lit;
            }
        }
        let (v, o) = (rf.violation.clone(), rf.ops.clone());
        println!("VIOLATION property={} replay={}", id, replay_path);
        println!("  signature={} step={} ops={} (from {})", v.signature, v.step, o.len(), fv.ops.len());
        println!("  expected: {}", v.expected);
        println!("  observed: {}", v.observed);
        exit = 1;
    }
    for k in &known {
        let hits = total.known.get(&k.signature).copied().unwrap_or(0);
        println!("KNOWN-FINDING: property={} {} [signature={} hits_this_run={}]", id, k.what, k.signature, hits);
    }
    write_evidence(prop.as_ref(), tier, seed, &total, hashes.len() as u64, start.elapsed().as_secs_f64(), wall_search, n_viol, &known, jobs);
    if exit == 0 {
        println!(
            "simcheck: {} held on {} runs ({} steps, {} distinct non-trivial cases, {} aborted-foreign) in {:.1}s{}",
            id,
            total.runs,
            total.steps,
            hashes.len(),
            total.aborted,
            start.elapsed().as_secs_f64(),
            if total.truncated { " [truncated by wall-clock cap]" } else { "" }
        );
    }
    let _ = replay_path;
    exit
}

static OBSERVATIONS: std::sync::Mutex<Option<serde_json::Value>> = std::sync::Mutex::new(None);

/// C18, observation only (outside the property's stated fault domain): export into a full file
/// system. dot-writer unwrap()s write errors and panics again in Drop while unwinding, which
/// aborts the process, so this runs in a child process and only its exit status is recorded.
fn cmd_enospc_probe() -> i32 {
    let Ok(dir) = std::env::var("C18_FULL") else {
        println!("unavailable");
        return 0;
    };
    let cfg: Config = vec![ModeSpec { name: "INITIAL".into(), patterns: vec![PatternSpec { pattern: "a+|[b-z]{2,3}".into(), token_type: 1, lookahead: None }], transitions: vec![] }];
    let sc = match sut::build(&cfg, BuildHow::Uncached) {
        Ok(s) => s,
        Err(_) => return 4,
    };
    match sc.generate_compiled_automata_as_dot("probe", std::path::Path::new(&dir)) {
        Ok(()) => {
            println!("returned Ok");
            0
        }
        Err(e) => {
            println!("returned Err: {}", e);
            0
        }
    }
}

fn observe_enospc() {
    if std::env::var("C18_FULL").is_err() {
        return;
    }
    let exe = std::env::current_exe().unwrap();
    let wrap: Vec<String> = std::env::var("SIMCHECK_WORKER_WRAP").ok().map(|w| w.split_whitespace().map(|x| x.to_string()).collect()).unwrap_or_default();
    let mut c = if wrap.is_empty() {
        Command::new(&exe)
    } else {
        let mut c = Command::new(&wrap[0]);
        c.args(&wrap[1..]).arg(&exe);
        c
    };
    let out = c.arg("enospc-probe").output();
    let v = match out {
        Ok(o) => {
            use std::os::unix::process::ExitStatusExt;
            serde_json::json!({
                "what": "generate_compiled_automata_as_dot into a full file system (ENOSPC at write time); observation only, not part of the verdict",
                "exit_code": o.status.code(),
                "killed_by_signal": o.status.signal(),
                "stdout": String::from_utf8_lossy(&o.stdout).trim().to_string(),
                "stderr_tail": String::from_utf8_lossy(&o.stderr).lines().rev().take(3).collect::<Vec<_>>(),
            })
        }
        Err(e) => serde_json::json!({"error": e.to_string()}),
    };
    *OBSERVATIONS.lock().unwrap() = Some(serde_json::json!({"enospc": v}));
}

/// Minimise a hanging history: candidates run in child processes under a short watchdog.
fn wrapped_self() -> Command {
    let exe = std::env::current_exe().unwrap();
    let wrap: Vec<String> = std::env::var("SIMCHECK_WORKER_WRAP").ok().map(|w| w.split_whitespace().map(|x| x.to_string()).collect()).unwrap_or_default();
    if wrap.is_empty() {
        Command::new(&exe)
    } else {
        let mut c = Command::new(&wrap[0]);
        c.args(&wrap[1..]).arg(&exe);
        c
    }
}

fn minimise_hang(rf: &mut ReplayFile, tmp: &str) {
    minimise_children(rf, tmp, 40)
}

/// ddmin over the operations with candidates executed in child processes (through the worker
/// wrapper, if any): for hangs, crashes, and for environments whose faults only exist for an
/// unprivileged process (C18). The failing operation must be the last one.
fn minimise_children(rf: &mut ReplayFile, tmp: &str, max_candidates: usize) {
    let mut budget = max_candidates;
    let still_hangs = |cand: &ReplayFile, budget: &mut usize| -> bool {
        if *budget == 0 {
            return false;
        }
        *budget -= 1;
        if std::fs::write(tmp, serde_json::to_string(cand).unwrap()).is_err() {
            return false;
        }
        let st = wrapped_self().arg("replay").arg(tmp).arg("--quiet").arg("1").env("SIMCHECK_REPLAY_HANG_SECS", "10").stdout(std::process::Stdio::null()).stderr(std::process::Stdio::null()).status();
        matches!(st.map(|s| s.code()), Ok(Some(1)))
    };
    if !still_hangs(rf, &mut budget) {
        let _ = std::fs::remove_file(tmp);
        return; // does not reproduce in a fresh process: keep the literal history as recorded
    }
    let mut n = 2usize;
    while rf.ops.len() >= 2 && budget > 0 {
        let len = rf.ops.len();
        let chunk = (len + n - 1) / n;
        let mut reduced = false;
        let mut start = 0;
        // the last operation is the one that does not return: never remove it
        while start < len - 1 {
            let end = (start + chunk).min(len - 1);
            let mut cand = rf.clone();
            cand.ops = rf.ops[..start].iter().chain(rf.ops[end..].iter()).cloned().collect();
            cand.violation.step = cand.ops.len() - 1;
            if still_hangs(&cand, &mut budget) {
                *rf = cand;
                rf.minimised = true;
                reduced = true;
                n = n.saturating_sub(1).max(2);
                break;
            }
            start = end;
        }
        if !reduced {
            if n >= len {
                break;
            }
            n = (n * 2).min(len);
        }
    }
    rf.faults = faults_of(&rf.ops);
    let _ = std::fs::remove_file(tmp);
}

fn faults_of(ops: &[Op]) -> Vec<String> {
    ops.iter()
        .enumerate()
        .filter_map(|(i, o)| match o {
            Op::SetOffset { offset, .. } => Some(format!("#{} reset to {}", i, offset)),
            Op::WithOffsetMid { offset, .. } => Some(format!("#{} reset to {} (consuming with_offset)", i, offset)),
            Op::NewIter { with_offset: Some(o), .. } => Some(format!("#{} created with offset {}", i, o)),
            Op::SetModeIter { mode, .. } => Some(format!("#{} mode override (iterator) {}", i, mode)),
            Op::SetModeScanner { mode, .. } => Some(format!("#{} mode override (scanner) {}", i, mode)),
            Op::AdvanceToPeeked { k, .. } => Some(format!("#{} skip ahead to peeked match {}", i, k)),
            Op::DropIter { .. } => Some(format!("#{} abandon iterator", i)),
            Op::BreakFolder { kind, victim } => Some(format!("#{} folder fault {:?} (victim file index {})", i, kind, victim)),
            Op::HealFolder => Some(format!("#{} heal folder", i)),
            _ => None,
        })
        .collect()
}

#[allow(clippy::too_many_arguments)]
fn write_evidence(prop: &dyn props::Prop, tier: &str, seed: u64, total: &WorkerReport, distinct: u64, wall: f64, wall_search: f64, violations: u64, known: &[KnownFinding], jobs: u64) {
    let root = verif_root();
    let id = prop.id();
    let mut faults = BTreeMap::new();
    let mut probes = BTreeMap::new();
    let mut other = BTreeMap::new();
    for (k, v) in &total.stats {
        if let Some(f) = k.strip_prefix("fault.") {
            faults.insert(f.to_string(), *v);
        } else if let Some(p) = k.strip_prefix("probe.") {
            probes.insert(p.to_string(), *v);
        } else {
            other.insert(k.clone(), *v);
        }
    }
    let blind: Vec<String> = prop
        .expected_probes()
        .iter()
        .filter(|p| total.stats.get(**p).copied().unwrap_or(0) == 0)
        .map(|p| p.to_string())
        .collect();
    let determinism = std::fs::read_to_string(format!("{}/.work/determinism.json", root))
        .ok()
        .and_then(|s| serde_json::from_str::<serde_json::Value>(&s).ok())
        .unwrap_or(serde_json::json!("not run in this checkout (run setup_cmd)"));
    let level = if id == "C18" { "fault_enumeration" } else { "exploration" };
    let mut assumptions = vec![
        "sampling, not enumeration: a clean batch is evidence, not proof".to_string(),
        "trusted base: rustc, the simulator's reference models and relational oracles (history-free executions of the same real code)".to_string(),
    ];
    assumptions.extend(prop.assumptions());
    let ev = serde_json::json!({
        "property_id": id,
        "tier": tier,
        "seed": seed,
        "level": level,
        "wall_s": wall,
        "violations": violations,
        "coverage": {
            "evaluations": total.runs,
            "distinct_nontrivial": distinct,
            "rule": prop.rule(),
            "samples": total.samples,
            "simulated_steps": total.steps,
            "simulated_time_note": "scnr reads no clock; simulated time is reported as executed operations (steps)",
            "runs_per_hour": if wall_search > 0.0 { (total.runs as f64 / wall_search * 3600.0) as u64 } else { 0 },
            "jobs": jobs,
            "fault_kinds_fired": faults,
            "reach_probes": probes,
            "other_counters": other,
            "blind_spots": blind,
            "aborted_foreign": total.aborted,
            "known_findings_hit": total.known,
            "known_findings_listed": known.iter().map(|k| k.signature.clone()).collect::<Vec<_>>(),
            "event_log_hash": format!("{:016x}", total.combined_hash),
            "truncated_by_wall_clock_cap": total.truncated,
            "determinism_selftest": determinism,
            "observations_outside_the_verdict": OBSERVATIONS.lock().unwrap().clone(),
            "components": {
                "real": ["scnr (current /repo working tree, cfg scnr_verif, debug assertions + overflow checks on)", "regex-syntax", "dot-writer", "serde/serde_json", "seshat-unicode"],
                "replaced": [],
                "stubs": []
            }
        },
        "assumptions": assumptions
    });
    let p = std::env::var("SIMCHECK_EVIDENCE_OUT").unwrap_or_else(|_| format!("{}/evidence/{}.json", root, id));
    std::fs::write(&p, serde_json::to_string_pretty(&ev).unwrap()).expect("write evidence");
}

fn cmd_replay(args: &Args) -> i32 {
    sut::install_panic_hook();
    let Some(path) = args.pos.get(1) else {
        eprintln!("usage: simcheck replay <file>");
        return 2;
    };
    let quiet = args.get("quiet").is_some();
    let s = match std::fs::read_to_string(path) {
        Ok(s) => s,
        Err(e) => {
            eprintln!("harness error: cannot read {}: {}", path, e);
            return 2;
        }
    };
    let rf: ReplayFile = match serde_json::from_str(&s) {
        Ok(r) => r,
        Err(e) => {
            eprintln!("harness error: cannot parse {}: {}", path, e);
            return 2;
        }
    };
    let Some(prop) = props::by_id(&rf.property) else {
        eprintln!("harness error: unknown property {}", rf.property);
        return 2;
    };
    if let Some((offset, stride)) = rf.slice {
        let corpus = gen::load_corpus();
        let mut idx = offset;
        while idx <= rf.run {
            let r = std::thread::scope(|s| s.spawn(|| run_one(prop.as_ref(), &corpus, rf.seed, idx, None)).join());
            let Ok(r) = r else {
                eprintln!("harness error: run {} panicked during the slice replay", idx);
                return 2;
            };
            if let Some(v) = r.violation {
                if idx == rf.run && v.signature == rf.violation.signature {
                    if !quiet {
                        println!("VIOLATION property={} replay={}", rf.property, path);
                        println!("  reproduced: signature={} in run {} after re-executing its worker slice (offset {}, stride {})", v.signature, idx, offset, stride);
                    }
                    return 1;
                }
                eprintln!("replay mismatch: run {} violates {} (recorded: run {} {})", idx, v.signature, rf.run, rf.violation.signature);
                return 2;
            }
            idx += stride;
        }
        if !quiet {
            println!("replay: no violation (the recorded violation {} does not occur on this tree)", rf.violation.signature);
        }
        return 0;
    }
    // crash replays: the history kills the process executing it, so it runs in a child
    let expect_crash = rf.violation.signature.ends_with("crash/worker_process_died");
    if expect_crash && args.get("inner").is_none() {
        use std::os::unix::process::ExitStatusExt;
        let st = Command::new(std::env::current_exe().unwrap())
            .arg("replay")
            .arg(path)
            .args(["--inner", "1", "--quiet", "1"])
            .stderr(std::process::Stdio::null())
            .status();
        return match st {
            Ok(st) if st.code() == Some(0) => {
                if !quiet {
                    println!("replay: no violation (the recorded crash does not occur on this tree)");
                }
                0
            }
            Ok(st) if st.signal().is_some() || !matches!(st.code(), Some(0) | Some(1) | Some(2)) => {
                if !quiet {
                    println!("VIOLATION property={} replay={}", rf.property, path);
                    println!("  reproduced: signature={} (the process executing the history died: code {:?}, signal {:?})", rf.violation.signature, st.code(), st.signal());
                }
                1
            }
            Ok(st) => {
                eprintln!("replay mismatch: the history did not kill the process but ended with exit code {:?}", st.code());
                2
            }
            Err(e) => {
                eprintln!("harness error: cannot spawn the replay child: {}", e);
                2
            }
        };
    }
    // hang replays: a watchdog turns "does not return" into the recorded signature
    let expect_hang = rf.violation.signature.ends_with("hang/no_progress");
    let sig = rf.violation.signature.clone();
    let pid = rf.property.clone();
    let path2 = path.clone();
    std::thread::spawn(move || {
        let hs: u64 = std::env::var("SIMCHECK_REPLAY_HANG_SECS").ok().and_then(|x| x.parse().ok()).unwrap_or(120);
        std::thread::sleep(std::time::Duration::from_secs(if expect_hang { hs } else { 120 }));
        if expect_hang {
            println!("VIOLATION property={} replay={}", pid, path2);
            println!("  reproduced: signature={} (operation did not return)", sig);
            std::process::exit(1);
        }
        eprintln!("harness error: replay did not finish");
        std::process::exit(2);
    });
    let got = replay(prop.as_ref(), &rf.world, &rf.ops);
    match got {
        Some(v) if v.signature == rf.violation.signature && v.step == rf.violation.step => {
            if !quiet {
                println!("VIOLATION property={} replay={}", rf.property, path);
                println!("  reproduced: signature={} step={}", v.signature, v.step);
                println!("  expected: {}", v.expected);
                println!("  observed: {}", v.observed);
            }
            1
        }
        Some(v) => {
            eprintln!("replay mismatch: recorded {} at step {}, got {} at step {}", rf.violation.signature, rf.violation.step, v.signature, v.step);
            2
        }
        None => {
            if !quiet {
                println!("replay: no violation (the recorded violation {} does not occur on this tree)", rf.violation.signature);
            }
            0
        }
    }
}

/// Determinism self-test: many seeds, each executed in two separate process groups with two
/// different worker counts; per-run event-log hashes must agree.
fn cmd_selftest(args: &Args) -> i32 {
    let n = args.num("seeds", 2000);
    let root = verif_root();
    let work = std::env::var("SIMCHECK_WORK").unwrap_or_else(|_| format!("{}/.work", root));
    let _ = std::fs::create_dir_all(&work);
    let seed = args.num("seed", 20261004);
    let mut all_ok = true;
    let mut detail = BTreeMap::new();
    let start = std::time::Instant::now();
    for p in props::all() {
        let id = p.id();
        let mut ma = BTreeMap::new();
        let mut mb = BTreeMap::new();
        // two VERIF_SEED values, half of the run indices each
        for (k, sd) in [seed, seed.wrapping_add(977)].iter().enumerate() {
            let a = collect(spawn_workers(id, *sd, 0, n / 2, 5, &work, &[], true, 0, "detA"));
            let b = collect(spawn_workers(id, *sd, 0, n / 2, 3, &work, &[], true, 0, "detB"));
            for r in &a {
                for (i, h) in &r.run_hashes {
                    ma.insert((k, *i), *h);
                }
            }
            for r in &b {
                for (i, h) in &r.run_hashes {
                    mb.insert((k, *i), *h);
                }
            }
        }
        // runs after a violation are not executed by a worker; compare the common prefix set
        let mut compared = 0u64;
        let mut diverged = Vec::new();
        for (i, h) in &ma {
            if let Some(h2) = mb.get(i) {
                compared += 1;
                if h != h2 {
                    diverged.push(*i);
                }
            }
        }
        for j in 0..5 {
            let _ = std::fs::remove_file(format!("{}/{}-detA-w{}.json", work, id, j));
            let _ = std::fs::remove_file(format!("{}/{}-detA-w{}.json.hashes", work, id, j));
            let _ = std::fs::remove_file(format!("{}/{}-detB-w{}.json", work, id, j));
            let _ = std::fs::remove_file(format!("{}/{}-detB-w{}.json.hashes", work, id, j));
        }
        if !diverged.is_empty() || compared == 0 {
            all_ok = false;
        }
        println!("determinism {}: compared {} runs in two process groups (5 and 3 workers), diverged {}", id, compared, diverged.len());
        detail.insert(id.to_string(), serde_json::json!({"runs_compared": compared, "diverged": diverged.len()}));
    }
    let out = serde_json::json!({"ok": all_ok, "verif_seeds": [seed, seed.wrapping_add(977)], "runs_per_property": n, "worker_counts": [5, 3], "per_property": detail, "wall_s": start.elapsed().as_secs_f64()});
    std::fs::write(format!("{}/.work/determinism.json", root), serde_json::to_string_pretty(&out).unwrap()).expect("write determinism.json");
    if all_ok {
        0
    } else {
        eprintln!("harness error: nondeterminism detected");
        2
    }
}
